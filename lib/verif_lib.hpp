// Shared declarations: heavy ChaiScript instantiations are compiled once (lib/stdlib.cpp, lib/parsers.cpp)
#ifndef VERIF_LIB_HPP
#define VERIF_LIB_HPP
#include <memory>
namespace chaiscript {
  class Module;
  namespace parser { class ChaiScript_Parser_Base; }
}
std::shared_ptr<chaiscript::Module> verif_stdlib();            // one shared Std_Lib::library() module
std::unique_ptr<chaiscript::parser::ChaiScript_Parser_Base> verif_parser(bool optimize); // default optimizer vs no-op optimizer
#endif
