#include <chaiscript/chaiscript_stdlib.hpp>
#include "lib/verif_lib.hpp"
std::shared_ptr<chaiscript::Module> verif_stdlib() {
  static std::shared_ptr<chaiscript::Module> m = chaiscript::Std_Lib::library();
  return m;
}
