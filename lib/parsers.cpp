#include <chaiscript/language/chaiscript_parser.hpp>
#include "lib/verif_lib.hpp"
namespace {
  // optimizer::Optimizer<> (empty pack) does not compile; a pass that returns its input is the "optimization off" pipeline
  struct No_Opt {
    template<typename T> auto optimize(chaiscript::eval::AST_Node_Impl_Ptr<T> p) { return p; }
  };
}
std::unique_ptr<chaiscript::parser::ChaiScript_Parser_Base> verif_parser(bool optimize) {
  using namespace chaiscript;
  if (optimize) {
    return std::make_unique<parser::ChaiScript_Parser<eval::Noop_Tracer, optimizer::Optimizer_Default>>();
  }
  return std::make_unique<parser::ChaiScript_Parser<eval::Noop_Tracer, optimizer::Optimizer<No_Opt>>>();
}
