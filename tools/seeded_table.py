#!/usr/bin/env python3
"""Promotes confirmed incoming changes to /verif/seeded/<ID>/<mN>/ (patch.diff, demonstration, notes.md, meta.json) and writes
seeded/README.md.  Inputs: .build/incoming/<ID>/, .build/confirm_results.json (tools/confirm_all.py), .build/mutant_results.txt
(tools/run_mutants.sh / tools/try_mutant.sh)."""
import glob
import json
import os
import shutil

VERIF = os.path.dirname(os.path.dirname(os.path.abspath(__file__)))
INC = os.path.join(VERIF, ".build", "incoming")

# what each change is and what it needs in order to manifest (from the authors' notes, checked against the patches)
NEEDS = {
    "C01/m1": ("Hex_() accepts '0x' without digits; buildInt throws, Num() returns false without rewinding: the bytes '0x' are silently dropped", "'0x' / '0X' not followed by a hex digit where a value can start"),
    "C01/m2": ("Depth_Counter removed from Equation()", "a right-nested assignment chain a=a=...=a longer than 512 (no error), 30000+ (native stack overflow)"),
    "C02/m1": ("For_Loop pass no longer checks that the variable tested by '<' is the loop counter", "for (var i = 0; n < 10; ++i) with another variable in the condition"),
    "C02/m2": ("Partial_Fold no longer requires an arithmetic constant on the right", "number (op) string/bool literal, e.g. n * \"ab\" with a user-defined operator, or n == \"3\""),
    "C03/m1": ("the for-loop scope guard moved inside the body: the loop variable leaks into the enclosing scope", "a for loop the optimizer does not compile (<=, +=, --, non-constant bound) + reuse of the name in the same scope"),
    "C03/m2": ("ranged-for creates its loop variable once and assigns into it", "lambdas capturing the ranged-for variable, called in a later pass or after the loop"),
    "C04/m1": ("cached local position only checks the innermost scope for shadowing", "variable first found at scope distance >=2, later an intermediate scope declares the name via conditional eval"),
    "C04/m2": ("a remembered function-object slot skips the global lookup", "a name that is first a function and later a global, same node evaluated before and after"),
    "C05/m1": ("division-overflow guard compares against the left operand's own type minimum instead of the promoted type's", "narrow-type minimum (or unsigned 0) divided by -1"),
    "C05/m2": ("Fold_Right node loses the arithmetic_error rethrow", "x / 0, x % 0, INT_MIN / -1 with a literal right operand (route 3 only)"),
    "C06/m1": ("dispatch() counts exact matches with != on full type info: pointer/shared_ptr/reference_wrapper parameters never score as exact", "overloads f(shared_ptr<Base>) / f(shared_ptr<Derived>) (or pointers) called with a Derived"),
    "C06/m2": ("Dynamic_Caster uses static_cast for references", "a Base-typed reference to a Sibling/Base passed where Derived& is expected"),
    "C07/m1": ("':=' loses its const check", "c := x with a const c of the same type"),
    "C07/m2": ("folded signed numeric literals become mutable (get_as returns a non-const value)", "-5 / ~5 / -2.5 reaching a mutation without being cloned first"),
    "C08/m1": ("new Range_Fold pass stores constant integer ranges as one shared vector in the tree", "[1..4] evaluated twice with an element modified in place"),
    "C08/m2": ("folded boolean literals built with the return-value flag", "(reverse of the repaired defect D19; does not apply to the repaired tree)"),
    "C09/m1": ("get_scoped_bool_condition uses explicit new_scope/pop_scope instead of the RAII guard", "an exception leaving the condition of a while / non-compiled for loop"),
    "C09/m2": ("contains_var_decl_in_scope no longer descends into Equation children", "a block whose only declarations are 'auto &r = e' or 'var y := e'"),
    "C10/m1": ("the catch(const std::exception&) handler of try re-throws by value (slicing)", "std::logic_error / user exception crossing a try that does not handle it"),
    "C10/m2": ("call_member catches std::runtime_error instead of arity/guard errors around attribute-held functions", "a runtime_error-derived exception crossing obj.attr(args)"),
    "C11/m1": ("Dot_Access saves the receiver only when there is an argument list", "paren-less member access on a temporary whose member yields a reference into it, used in the same statement"),
    "C11/m2": ("Unused_Return also rewrites the last statement of a block", "a function whose last statement is f(<temporary>) returning a reference into the argument, used by the caller"),
    "C12/m1": ("erase_at bound check rewritten with size() - 1", "erase_at(p>=0) on an empty Vector/string/List"),
    "C12/m2": ("const overload of [] hand-checks only the upper bound", "negative index on a const container or string literal"),
    "C13/m1": ("add_function extends the published overload vector in place", "one thread dispatching a name by lookup while another adds an overload of that name"),
    "C13/m2": ("add_global checks under a shared lock, then inserts under an exclusive lock ignoring the result", "several threads adding the same new global at the same moment"),
    "C14/m1": ("Thread_Storage gets a one-entry thread_local cache keyed by the owner's address", "engine B created at dead engine A's address, a thread whose last engine access was A"),
    "C14/m2": ("Thread_Storage keys handed out from a per-thread counter", "two engines created on different threads with the same creation ordinal, used from one thread"),
    "C15/m1": ("add_function extends the overload vector in place (snapshots share it)", "get_state, add an overload to an existing name, set_state"),
    "C15/m2": ("set_state intersects used-file records instead of replacing them", "restoring a snapshot whose used-file set is not a subset of the live one"),
    "C16/m1": ("buildInt tests !long_ instead of !longlong_ for values beyond long long", "value >= 2^63 with exactly one l/L in the suffix: typed unsigned long long instead of unsigned long"),
    "C16/m2": ("Char_Parser hex branch returns unconditionally", "a one-digit \\x escape followed by a non-hex character"),
    "C17/m1": ("join() emits the delimiter only when the accumulated string is non-empty", "containers whose first element(s) stringify to \"\""),
    "C17/m2": ("odd() compares the remainder to 1", "(reverse of the repaired defect D16) negative odd numbers"),
    "C18/m1": ("parse_object parses keys with depth 0", "nesting through object key positions ({[ repeated)"),
    "C18/m2": ("parse_string uses a thread_local buffer that is not cleared on the error path", "a rejected text ending inside a string, then another from_json on the same thread"),
    "C19/m1": ("BOM skipped only when size > 3", "a file that is exactly the three BOM bytes"),
    "C19/m2": ("use() records the path before evaluating the file", "use(f) of a file that fails, then use(f) again"),
    "C20/m1": ("Unused_Return gives loop-body call statements the location of the loop body", "a failing or enclosing call that is a non-first statement of a while/for body"),
    "C20/m2": ("Position::operator-(n) no longer steps back character by character", "CRLF line ends with a // or # comment earlier in the chunk: line numbers too large"),
    # ---- second round (m3, m4): written after the checks had been strengthened against the first round
    "C01/m3": ("the __CLASS__ lookup loop runs down to idx 1 and reads m_match_stack[idx - 2]", "input that begins with a free function whose body uses __CLASS__: read below the bottom of the match stack"),
    "C01/m4": ("Constant_Fold catches arithmetic_error only: bad_any_cast from an integer-only operator on floating literals leaves parse()", "two literal operands, one floating, operator from % << >> & | ^ (1.5 % 2)"),
    "C02/m3": ("For_Loop accepts any arithmetic constant as the bound and converts it with get_as<int>", "for (var i = 0; i < 2.5; ++i), i < 3000000000"),
    "C02/m4": ("Fold_Right node loses the arithmetic_error rethrow (same as C05/m2)", "x / 0 with a literal right operand: eval_error instead of arithmetic_error on the optimized path only"),
    "C03/m3": ("Equation takes the is-a-variable flag of the left side when deciding whether to clone the right side", "m[\"k\"] = p or this.attr = p with p a parameter bound to a temporary; later in-place change of either"),
    "C03/m4": ("contains_var_decl_in_scope no longer counts Reference nodes", "loop body / block whose only declaration is var &r = x, executed twice or beside an outer r"),
    "C05/m3": ("Fold_Right node loses the arithmetic_error rethrow (same as C05/m2)", "x / 0, x % 0, INT_MIN / -1 with a literal right operand"),
    "C05/m4": ("Boxed_Number::oper returns true for == when both operands are the same object", "x == x with x NaN (runtime node and function routes)"),
    "C16/m3": ("buildInt applies the unsigned steps of the typing sequence to prefixed literals only", "unsuffixed octal literal in [2^31, 2^32): typed long instead of unsigned int"),
    "C16/m4": ("parse_num stops accumulating fraction digits after max_digits10 decimal places", "positional floating literal with leading zeros after the point and > 17 (9 for f) fraction places"),
    "C17/m3": ("join() emits the delimiter only once the result is non-empty (same as C17/m1)", "containers whose leading element(s) stringify to the empty string"),
    "C17/m4": ("ltrim() rewritten with find_first_not_of + substr", "empty or all-whitespace string: std::out_of_range instead of the empty string"),
    "C18/m3": ("parse_object parses keys with depth 0 (same as C18/m1)", "nesting through object key positions"),
    "C18/m4": ("json_escape writes control characters as \\u00XX, which parse_string does not decode", "strings or keys containing 0x01-0x07, 0x0b, 0x0e-0x1f"),
    "C19/m3": ("BOM skipped only when size > 3 (same as C19/m1)", "a file that is exactly the three BOM bytes"),
    "C19/m4": ("use() returns early when path + name is recorded for ANY use path, before looking for the file", "same base name under two use paths where one extends the other; use(\"lib/x\") then use(\"x\")"),
    "C20/m3": ("Position::operator-(n) computed with pointer/column arithmetic (same as C20/m2)", "CRLF line ends with a // or # comment earlier in the chunk"),
    "C20/m4": ("Unused_Return gives loop-body call statements the location of the loop body (same as C20/m1)", "a call that is a non-first statement of a while/for body"),
    "C04/m3": ("get_object: the loop checking nearer scopes for a shadowing declaration keeps only the last scope's verdict", "a variable first found >=2 scopes out, later a same-named variable (eval) in a nearer, non-adjacent scope"),
    "C04/m4": ("QuickFlatMap::find trusts a non-zero position hint without comparing the key", "set_state, then the functions are redefined in a different order: nodes evaluated before keep stale hints"),
    "C06/m3": ("Dynamic_Caster uses static_pointer_cast for const shared_ptr-held objects", "a const, shared_ptr-held Base (or sibling) passed where const Derived& is expected"),
    "C06/m4": ("Boxed_Number::get_as reads a 32-bit unsigned value as int32", "an unsigned 32-bit value > INT_MAX converted to a wider integer / floating parameter or std::function result"),
    "C07/m3": ("integer literals beyond long long (stoull fallback of buildInt) are created mutable", "a literal > 2^63-1 mutated in place (++, +=) or through a reference"),
    "C07/m4": ("Handle_Return<const T&> returns scalars as mutable copies", "++/-- or a T&/T* function applied to an arithmetic const& result (getter, data member of a const object, element of a const string)"),
    "C08/m3": ("cached local lookup checks only the innermost scope for a shadowing declaration", "same Id node evaluated twice, a scope strictly between declares the name the second time"),
    "C08/m4": ("Inline_Map takes the is-a-variable flag of the key instead of the value when cloning", "[\"k\": x] with x a parameter bound to a temporary, element mutated in place, closure called twice"),
    "C09/m3": ("contains_var_decl_in_scope does not look into If children", "a block / loop body whose only declaration sits in an if-condition: `if (var x = f()) {..}`"),
    "C09/m4": ("get_scoped_bool_condition pops its scope on the normal path only", "an exception leaving the condition of a while / non-compiled for loop (same effect as C09/m1)"),
    "C10/m3": ("the normal-path finally evaluation moved inside the try whose catch(...) re-runs finally", "a finally block that itself throws"),
    "C10/m4": ("Dynamic_Caster uses static_cast for const references", "a C++ exception against a typed catch clause naming a registered subclass of its type, placed before the right clause"),
    "C11/m3": ("Unused_Return also rewrites the last statement of a block", "function whose last statement is f(<temporary>) returning a reference into the argument (same as C11/m2)"),
    "C11/m4": ("pointer_sentinel refreshes only the mutable data pointer after a shared_ptr& parameter was re-seated", "C++ function replacing the pointee through shared_ptr<T>&, then a const access to the variable"),
    "C12/m4": ("substr takes (int, int) instead of (size_t, size_t)", "position or length >= 2^32 whose low 32 bits are valid"),
    "C13/m3": ("add_function extends the published overload vector in place", "dispatch by name on one thread while another adds an overload (same as C13/m1)"),
    "C13/m4": ("get_state takes m_mutex before m_use_mutex (use() takes them the other way round)", "get_state while another thread is inside use() of a new file: deadlock"),
    "C14/m3": ("Thread_Storage remembers the last looked-up object per thread, reset only on the destroying thread", "engine destroyed on thread A, new engine at the same address, first touched by a surviving thread B"),
    "C14/m4": ("the convertible-types cache is a function-local static thread_local shared by all engines, refreshed on size mismatch only", "two engines with equally many but different conversions used alternately on one thread"),
    "C15/m3": ("set_state returns early when a revision counter kept inside the state matches", "two sibling histories from one snapshot with equally many registrations, restore from one to the other"),
    "C15/m4": ("set_global assigns through the existing object instead of re-binding the name", "set_global on a global that an earlier snapshot holds, then set_state to that snapshot"),
}


def main():
    conf = {}
    for f in sorted(glob.glob(os.path.join(VERIF, ".build", "confirm_results*.json")), key=os.path.getmtime):
        for k, v in json.load(open(f)).items():
            if k not in conf or v.get("confirmed") or not conf[k].get("tests"):
                conf[k] = v
    verdict = {}           # change -> {check: latest verdict}
    mr = os.path.join(VERIF, ".build", "mutant_results.txt")
    if os.path.exists(mr):
        for line in open(mr):
            parts = line.split()
            if len(parts) >= 4 and parts[0] == "RESULT" and "/incoming/" in parts[2] and parts[2].endswith(".diff"):
                key = os.path.basename(os.path.dirname(parts[2])) + "/" + os.path.basename(parts[2])[:-5]
                verdict.setdefault(key, {})[parts[1]] = parts[3]

    def vtext(key):
        v = verdict.get(key)
        if not v:
            return "not run"
        own = key.split("/")[0]
        out = []
        for chk in sorted(v, key=lambda c: (c != own, c)):
            out.append(v[chk] if chk == own else "%s by %s" % (v[chk], chk))
        return "; ".join(out)

    rows = []
    for pid in sorted(os.listdir(INC)):
        for patch in sorted(glob.glob(os.path.join(INC, pid, "m*.diff"))):
            m = os.path.basename(patch)[:-5]
            key = "%s/%s" % (pid, m)
            c = conf.get(key, {})
            what, needs = NEEDS.get(key, ("", ""))
            d = os.path.join(VERIF, "seeded", pid, m)
            keep = c.get("confirmed") or (c.get("applies") is False)
            if not c:
                keep = False
            if c.get("confirmed"):
                os.makedirs(d, exist_ok=True)
                shutil.copy(patch, os.path.join(d, "patch.diff"))
                for f in glob.glob(os.path.join(INC, pid, m + "_demo*")) + glob.glob(os.path.join(INC, pid, m + ".md")):
                    if os.path.getsize(f) < 200000 and not os.access(f, os.X_OK):
                        shutil.copy(f, os.path.join(d, os.path.basename(f).replace(m + ".md", "notes.md")))
                meta = {
                    "property": pid, "id": key, "what_was_changed": what, "needs_in_order_to_manifest": needs,
                    "written_by": "fresh sub-agent given only the property text and a scratch worktree",
                    "confirmed": {"repo_head": c.get("head"), "existing_tests_with_change": c.get("tests"),
                                  "demonstrations": [{k: v for k, v in dd.items() if k in ("demo", "mutated_exit", "clean_exit")} for dd in c.get("demos", [])],
                                  "how": "tools/confirm_all.py: scratch worktree of /repo HEAD + git apply; cmake/ninja build; ctest -j8; demo built/run against the patched and the clean tree"},
                    "check_verdict": {"quick_check": vtext(key), "how": "tools/try_mutant.sh %s <patch>: ./check %s quick with VERIF_REPO=<patched scratch copy> (equivalent to git -C /repo apply; ./check; git checkout)" % (pid, pid)},
                }
                json.dump(meta, open(os.path.join(d, "meta.json"), "w"), indent=1)
            rows.append((key, what, needs, c, vtext(key)))
    with open(os.path.join(VERIF, "seeded", "README.md"), "w") as f:
        f.write("# Independently written breaking changes\n\nGenerated by tools/seeded_table.py. `kept` = confirmed (295 tests pass with the change; demonstration fails with it and passes without it).\n\n")
        f.write("| change | what was changed | needs in order to manifest | tests with change | demo (changed/clean exit) | kept | quick check |\n|---|---|---|---|---|---|---|\n")
        for key, what, needs, c, v in rows:
            demos = "; ".join("%s/%s" % (d.get("mutated_exit"), d.get("clean_exit")) for d in c.get("demos", [])) if c else ""
            tests = (c.get("tests") or ("patch no longer applies" if c.get("applies") is False else "not confirmed yet")) if c else "not confirmed yet"
            f.write("| %s | %s | %s | %s | %s | %s | %s |\n" % (key, what, needs, tests.replace("|", "/"), demos, "yes" if c.get("confirmed") else "no", v))
    print("rows", len(rows), "kept", sum(1 for r in rows if r[3].get("confirmed")))


if __name__ == "__main__":
    main()
