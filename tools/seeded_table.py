#!/usr/bin/env python3
"""Promotes confirmed incoming changes to /verif/seeded/<ID>/<mN>/ (patch.diff, demonstration, notes.md, meta.json) and writes
seeded/README.md.  Inputs: .build/incoming/<ID>/, .build/confirm_results.json (tools/confirm_all.py), .build/mutant_results.txt
(tools/run_mutants.sh / tools/try_mutant.sh)."""
import glob
import json
import os
import shutil

VERIF = os.path.dirname(os.path.dirname(os.path.abspath(__file__)))
INC = os.path.join(VERIF, ".build", "incoming")

# what each change is and what it needs in order to manifest (from the authors' notes, checked against the patches)
NEEDS = {
    "C01/m1": ("Hex_() accepts '0x' without digits; buildInt throws, Num() returns false without rewinding: the bytes '0x' are silently dropped", "'0x' / '0X' not followed by a hex digit where a value can start"),
    "C01/m2": ("Depth_Counter removed from Equation()", "a right-nested assignment chain a=a=...=a longer than 512 (no error), 30000+ (native stack overflow)"),
    "C02/m1": ("For_Loop pass no longer checks that the variable tested by '<' is the loop counter", "for (var i = 0; n < 10; ++i) with another variable in the condition"),
    "C02/m2": ("Partial_Fold no longer requires an arithmetic constant on the right", "number (op) string/bool literal, e.g. n * \"ab\" with a user-defined operator, or n == \"3\""),
    "C03/m1": ("the for-loop scope guard moved inside the body: the loop variable leaks into the enclosing scope", "a for loop the optimizer does not compile (<=, +=, --, non-constant bound) + reuse of the name in the same scope"),
    "C03/m2": ("ranged-for creates its loop variable once and assigns into it", "lambdas capturing the ranged-for variable, called in a later pass or after the loop"),
    "C04/m1": ("cached local position only checks the innermost scope for shadowing", "variable first found at scope distance >=2, later an intermediate scope declares the name via conditional eval"),
    "C04/m2": ("a remembered function-object slot skips the global lookup", "a name that is first a function and later a global, same node evaluated before and after"),
    "C05/m1": ("division-overflow guard compares against the left operand's own type minimum instead of the promoted type's", "narrow-type minimum (or unsigned 0) divided by -1"),
    "C05/m2": ("Fold_Right node loses the arithmetic_error rethrow", "x / 0, x % 0, INT_MIN / -1 with a literal right operand (route 3 only)"),
    "C06/m1": ("dispatch() counts exact matches with != on full type info: pointer/shared_ptr/reference_wrapper parameters never score as exact", "overloads f(shared_ptr<Base>) / f(shared_ptr<Derived>) (or pointers) called with a Derived"),
    "C06/m2": ("Dynamic_Caster uses static_cast for references", "a Base-typed reference to a Sibling/Base passed where Derived& is expected"),
    "C07/m1": ("':=' loses its const check", "c := x with a const c of the same type"),
    "C07/m2": ("folded signed numeric literals become mutable (get_as returns a non-const value)", "-5 / ~5 / -2.5 reaching a mutation without being cloned first"),
    "C08/m1": ("new Range_Fold pass stores constant integer ranges as one shared vector in the tree", "[1..4] evaluated twice with an element modified in place"),
    "C08/m2": ("folded boolean literals built with the return-value flag", "(reverse of the repaired defect D19; does not apply to the repaired tree)"),
    "C09/m1": ("get_scoped_bool_condition uses explicit new_scope/pop_scope instead of the RAII guard", "an exception leaving the condition of a while / non-compiled for loop"),
    "C09/m2": ("contains_var_decl_in_scope no longer descends into Equation children", "a block whose only declarations are 'auto &r = e' or 'var y := e'"),
    "C10/m1": ("the catch(const std::exception&) handler of try re-throws by value (slicing)", "std::logic_error / user exception crossing a try that does not handle it"),
    "C10/m2": ("call_member catches std::runtime_error instead of arity/guard errors around attribute-held functions", "a runtime_error-derived exception crossing obj.attr(args)"),
    "C11/m1": ("Dot_Access saves the receiver only when there is an argument list", "paren-less member access on a temporary whose member yields a reference into it, used in the same statement"),
    "C11/m2": ("Unused_Return also rewrites the last statement of a block", "a function whose last statement is f(<temporary>) returning a reference into the argument, used by the caller"),
    "C12/m1": ("erase_at bound check rewritten with size() - 1", "erase_at(p>=0) on an empty Vector/string/List"),
    "C12/m2": ("const overload of [] hand-checks only the upper bound", "negative index on a const container or string literal"),
    "C13/m1": ("add_function extends the published overload vector in place", "one thread dispatching a name by lookup while another adds an overload of that name"),
    "C13/m2": ("add_global checks under a shared lock, then inserts under an exclusive lock ignoring the result", "several threads adding the same new global at the same moment"),
    "C14/m1": ("Thread_Storage gets a one-entry thread_local cache keyed by the owner's address", "engine B created at dead engine A's address, a thread whose last engine access was A"),
    "C14/m2": ("Thread_Storage keys handed out from a per-thread counter", "two engines created on different threads with the same creation ordinal, used from one thread"),
    "C15/m1": ("add_function extends the overload vector in place (snapshots share it)", "get_state, add an overload to an existing name, set_state"),
    "C15/m2": ("set_state intersects used-file records instead of replacing them", "restoring a snapshot whose used-file set is not a subset of the live one"),
    "C16/m1": ("buildInt tests !long_ instead of !longlong_ for values beyond long long", "value >= 2^63 with exactly one l/L in the suffix: typed unsigned long long instead of unsigned long"),
    "C16/m2": ("Char_Parser hex branch returns unconditionally", "a one-digit \\x escape followed by a non-hex character"),
    "C17/m1": ("join() emits the delimiter only when the accumulated string is non-empty", "containers whose first element(s) stringify to \"\""),
    "C17/m2": ("odd() compares the remainder to 1", "(reverse of the repaired defect D16) negative odd numbers"),
    "C18/m1": ("parse_object parses keys with depth 0", "nesting through object key positions ({[ repeated)"),
    "C18/m2": ("parse_string uses a thread_local buffer that is not cleared on the error path", "a rejected text ending inside a string, then another from_json on the same thread"),
    "C19/m1": ("BOM skipped only when size > 3", "a file that is exactly the three BOM bytes"),
    "C19/m2": ("use() records the path before evaluating the file", "use(f) of a file that fails, then use(f) again"),
    "C20/m1": ("Unused_Return gives loop-body call statements the location of the loop body", "a failing or enclosing call that is a non-first statement of a while/for body"),
    "C20/m2": ("Position::operator-(n) no longer steps back character by character", "CRLF line ends with a // or # comment earlier in the chunk: line numbers too large"),
}


def main():
    conf = json.load(open(os.path.join(VERIF, ".build", "confirm_results.json"))) if os.path.exists(os.path.join(VERIF, ".build", "confirm_results.json")) else {}
    verdict = {}
    mr = os.path.join(VERIF, ".build", "mutant_results.txt")
    if os.path.exists(mr):
        for line in open(mr):
            parts = line.split()
            if len(parts) >= 4 and parts[0] == "RESULT":
                key = parts[1] + "/" + os.path.basename(parts[2])[:-5] if parts[2].endswith(".diff") and "incoming" in parts[2] else parts[1] + "/" + os.path.basename(os.path.dirname(parts[2]))
                verdict[key] = parts[3]
    rows = []
    for pid in sorted(os.listdir(INC)):
        for patch in sorted(glob.glob(os.path.join(INC, pid, "m*.diff"))):
            m = os.path.basename(patch)[:-5]
            key = "%s/%s" % (pid, m)
            c = conf.get(key, {})
            what, needs = NEEDS.get(key, ("", ""))
            d = os.path.join(VERIF, "seeded", pid, m)
            keep = c.get("confirmed") or (c.get("applies") is False)
            if not c:
                keep = False
            if c.get("confirmed"):
                os.makedirs(d, exist_ok=True)
                shutil.copy(patch, os.path.join(d, "patch.diff"))
                for f in glob.glob(os.path.join(INC, pid, m + "_demo*")) + glob.glob(os.path.join(INC, pid, m + ".md")):
                    if os.path.getsize(f) < 200000 and not os.access(f, os.X_OK):
                        shutil.copy(f, os.path.join(d, os.path.basename(f).replace(m + ".md", "notes.md")))
                meta = {
                    "property": pid, "id": key, "what_was_changed": what, "needs_in_order_to_manifest": needs,
                    "written_by": "fresh sub-agent given only the property text and a scratch worktree",
                    "confirmed": {"repo_head": c.get("head"), "existing_tests_with_change": c.get("tests"),
                                  "demonstrations": [{k: v for k, v in dd.items() if k in ("demo", "mutated_exit", "clean_exit")} for dd in c.get("demos", [])],
                                  "how": "tools/confirm_all.py: scratch worktree of /repo HEAD + git apply; cmake/ninja build; ctest -j8; demo built/run against the patched and the clean tree"},
                    "check_verdict": {"quick_check": verdict.get(key, "not run"), "how": "tools/try_mutant.sh %s <patch>: ./check %s quick with VERIF_REPO=<patched scratch copy> (equivalent to git -C /repo apply; ./check; git checkout)" % (pid, pid)},
                }
                json.dump(meta, open(os.path.join(d, "meta.json"), "w"), indent=1)
            rows.append((key, what, needs, c, verdict.get(key, "not run")))
    with open(os.path.join(VERIF, "seeded", "README.md"), "w") as f:
        f.write("# Independently written breaking changes\n\nGenerated by tools/seeded_table.py. `kept` = confirmed (295 tests pass with the change; demonstration fails with it and passes without it).\n\n")
        f.write("| change | what was changed | needs in order to manifest | tests with change | demo (changed/clean exit) | kept | quick check |\n|---|---|---|---|---|---|---|\n")
        for key, what, needs, c, v in rows:
            demos = "; ".join("%s/%s" % (d.get("mutated_exit"), d.get("clean_exit")) for d in c.get("demos", [])) if c else ""
            tests = (c.get("tests") or ("patch no longer applies" if c.get("applies") is False else "not confirmed yet")) if c else "not confirmed yet"
            f.write("| %s | %s | %s | %s | %s | %s | %s |\n" % (key, what, needs, tests.replace("|", "/"), demos, "yes" if c.get("confirmed") else "no", v))
    print("rows", len(rows), "kept", sum(1 for r in rows if r[3].get("confirmed")))


if __name__ == "__main__":
    main()
