#!/usr/bin/env python3
"""Confirms incoming mutants in scratch worktrees: (1) the patch applies to /repo HEAD, (2) the patched tree builds and passes the
295 tests, (3) the demonstration fails with the patch and passes without it.  Results: .build/confirm_results.json
usage: confirm_all.py [PID ...]      (default: every directory under .build/incoming)"""
import glob
import json
import os
import re
import subprocess
import sys

VERIF = os.path.dirname(os.path.dirname(os.path.abspath(__file__)))
INC = os.path.join(VERIF, ".build", "incoming")
OUT = os.environ.get("CONFIRM_OUT") or os.path.join(VERIF, ".build", "confirm_results.json")      # parallel instances write separate files (confirm_results*.json)
JOBS = os.environ.get("CONFIRM_JOBS", "8")


def sh(cmd, cwd=None, timeout=3600):
    r = subprocess.run(cmd, shell=True, cwd=cwd, stdout=subprocess.PIPE, stderr=subprocess.STDOUT, timeout=timeout)
    return r.returncode, r.stdout.decode(errors="replace")


def run_demo(demo, include_dir, chai_bin, workdir, tag, tsan):
    """-> (exit status, tail of output)"""
    if demo.endswith(".chai"):
        rc, out = sh("cd %s && timeout 300 %s %s" % (os.path.dirname(demo), chai_bin, demo))
        return rc, out[-600:]
    exe = os.path.join(workdir, "demo_" + tag)
    cxx = "clang++ -fsanitize=thread -g" if tsan else "g++"
    if "verif_engine" in open(demo, errors="replace").read() or "CHAISCRIPT_VERIF" in open(demo, errors="replace").read():
        cxx += " -DCHAISCRIPT_VERIF"       # the demonstration looks at the stacks through the instrumentation hook
    rc, out = sh("%s -std=c++17 -O1 -I%s %s -o %s -lpthread -ldl" % (cxx, include_dir, demo, exe), timeout=1200)
    if rc != 0:
        return -1000, "demo does not compile: " + out[-400:]
    env = "TSAN_OPTIONS=halt_on_error=1:exitcode=66 " if tsan else ""
    rc, out = sh("cd %s && %stimeout 600 %s" % (workdir, env, exe))
    return rc, out[-600:]


def _sha(path):
    import hashlib
    return hashlib.sha1(open(path, "rb").read()).hexdigest()[:12]


def main():
    pids = sys.argv[1:] or sorted(os.listdir(INC))
    results = json.load(open(OUT)) if os.path.exists(OUT) else {}
    done_elsewhere = {}
    for f in glob.glob(os.path.join(VERIF, ".build", "confirm_results*.json")):
        if os.path.abspath(f) != os.path.abspath(OUT):
            done_elsewhere.update(json.load(open(f)))
    head = subprocess.check_output(["git", "-C", "/repo", "rev-parse", "--short", "HEAD"]).decode().strip()
    for pid in pids:
        for patch in sorted(glob.glob(os.path.join(INC, pid, "m*.diff"))):
            m = os.path.basename(patch)[:-5]
            key = "%s/%s" % (pid, m)
            if key in os.environ.get("CONFIRM_SKIP", "").split():
                continue
            for f in glob.glob(os.path.join(VERIF, ".build", "confirm_results*.json")):      # other instances' progress
                if os.path.abspath(f) != os.path.abspath(OUT):
                    try:
                        done_elsewhere.update(json.load(open(f)))
                    except ValueError:
                        pass
            prev = results.get(key) or done_elsewhere.get(key)
            if key in os.environ.get("CONFIRM_FORCE", "").split():
                prev = None
            if prev and prev.get("tests") and prev.get("patch_sha") in (None, _sha(patch)):
                continue        # confirmed before (against an earlier /repo HEAD is fine as long as the patch file is the same)
            res = {"head": head, "patch_sha": _sha(patch)}
            S = "/tmp/vconf_%s_%s" % (pid, m)
            sh("git -C /repo worktree remove --force %s; rm -rf %s" % (S, S))
            rc, out = sh("git -C /repo worktree add --detach %s HEAD" % S)
            rc, out = sh("git -C %s apply %s" % (S, patch))
            if rc != 0:
                res["applies"] = False
                res["note"] = out[-300:]
                results[key] = res
                sh("git -C /repo worktree remove --force %s; rm -rf %s" % (S, S))
                json.dump(results, open(OUT, "w"), indent=1)
                continue
            res["applies"] = True
            rc, out = sh("cmake -G Ninja -S . -B _build -DCMAKE_BUILD_TYPE=RelWithDebInfo -DCMAKE_CXX_FLAGS=-Wno-error >/dev/null 2>&1 && cmake --build _build -j%s 2>&1 | tail -3" % JOBS, cwd=S)
            rc2, out2 = sh("ctest --test-dir _build -j8 --timeout 900 2>&1 | grep -E 'tests passed|Failed'", cwd=S)
            res["tests"] = out2.strip().replace("\n", " | ")
            demos = [d for d in sorted(glob.glob(os.path.join(INC, pid, m + "_demo*"))) if d.endswith((".cpp", ".chai"))]
            notes = open(os.path.join(INC, pid, m + ".md")).read() if os.path.exists(os.path.join(INC, pid, m + ".md")) else ""
            res["demos"] = []
            for demo in demos[:2]:
                tsan = "fsanitize=thread" in notes and pid == "C13" and m in ("m1", "m3")
                rc_m, out_m = run_demo(demo, S + "/include", S + "/_build/chai", S, "mut", tsan)
                rc_c, out_c = run_demo(demo, "/repo/include", "/repo/_build/chai", S, "clean", tsan)
                res["demos"].append({"demo": os.path.basename(demo), "mutated_exit": rc_m, "clean_exit": rc_c, "mutated_tail": out_m[-250:], "clean_tail": out_c[-150:]})
            res["confirmed"] = ("100% tests passed" in res["tests"]) and any(d["mutated_exit"] != 0 and d["clean_exit"] == 0 for d in res["demos"])
            results[key] = res
            sh("git -C /repo worktree remove --force %s; rm -rf %s" % (S, S))
            json.dump(results, open(OUT, "w"), indent=1)
            print(key, res.get("tests"), res.get("confirmed"), flush=True)


if __name__ == "__main__":
    main()
