"""Shared helpers for the checks: seeds, evidence files, replay files, VIOLATION / KNOWN-FINDING lines."""
import hashlib
import json
import os
import sys
import time

VERIF = os.path.dirname(os.path.dirname(os.path.abspath(__file__)))
REPO = os.environ.get("VERIF_REPO", "/repo")
# VERIF_SCRATCH (used only when trying the checks against a mutated copy of the repository) redirects every output
# -- build tree, evidence, replays -- away from /verif so that such a run cannot disturb the real ones
OUT = os.environ.get("VERIF_SCRATCH") or VERIF
WORK = os.path.join(OUT, ".build", "work")
BIN = os.path.join(OUT, ".build", "bin")
NCPU = int(os.environ.get("VERIF_JOBS", "16"))

sys.path.insert(0, os.path.join(VERIF, "tools"))


def seed():
    try:
        s = int(os.environ.get("VERIF_SEED", "1"))
    except ValueError:
        s = 1
    return s if s != 0 else 1  # 0 means "random" to most engines; remap


def workdir(name):
    d = os.path.join(WORK, name)
    os.makedirs(d, exist_ok=True)
    return d


def fresh_workdir(name):
    import shutil
    d = os.path.join(WORK, name)
    shutil.rmtree(d, ignore_errors=True)
    os.makedirs(d)
    return d


def ensure_built(*targets):
    import build
    return build.build(list(targets), quiet=False)


def b2s(b):
    """bytes -> latin-1 str (the wire/evidence convention for byte strings)"""
    return b.decode("latin-1") if isinstance(b, (bytes, bytearray)) else b


def s2b(s):
    return s.encode("latin-1") if isinstance(s, str) else s


class Evidence:
    def __init__(self, pid, tier, level="exploration"):
        self.pid, self.tier, self.level = pid, tier, level
        self.t0 = time.time()
        self.cov = {"evaluations": 0, "distinct_nontrivial": 0, "rule": "", "samples": []}
        self.assumptions = []
        self.violations = 0
        self._distinct = set()

    def count(self, key, n=1):
        self.cov[key] = self.cov.get(key, 0) + n

    def classify(self, table, key, n=1):
        t = self.cov.setdefault(table, {})
        t[key] = t.get(key, 0) + n

    def nontrivial(self, case_key):
        """register one non-trivial case by a hashable/serialisable key; duplicates are not recounted"""
        h = hashlib.sha1(repr(case_key).encode("utf-8", "replace")).digest()[:10]
        self._distinct.add(h)

    def sample(self, s, limit=12):
        if len(self.cov["samples"]) < limit:
            self.cov["samples"].append(s)

    def write(self):
        self.cov["distinct_nontrivial"] = self.cov.get("distinct_nontrivial", 0) + len(self._distinct)
        self._distinct = set()
        doc = {
            "property_id": self.pid,
            "tier": self.tier,
            "seed": seed(),
            "level": self.level,
            "coverage": self.cov,
            "assumptions": self.assumptions,
            "wall_s": round(time.time() - self.t0, 2),
            "violations": self.violations,
        }
        os.makedirs(os.path.join(OUT, "evidence"), exist_ok=True)
        p = os.path.join(OUT, "evidence", self.pid + ".json")
        with open(p + ".tmp", "w") as f:
            json.dump(doc, f, indent=1, sort_keys=True, default=str)
        os.replace(p + ".tmp", p)
        return p


def save_replay(pid, doc, raw=None, ext="json"):
    """Write a replay file under replays/<pid>/ named by content hash; returns its path."""
    d = os.path.join(OUT, "replays", pid)
    os.makedirs(d, exist_ok=True)
    if raw is not None:
        body = raw
    else:
        body = json.dumps(doc, indent=1, sort_keys=True, default=str).encode()
    name = hashlib.sha1(body).hexdigest()[:16] + "." + ext
    p = os.path.join(d, name)
    with open(p, "wb") as f:
        f.write(body)
    if raw is not None and doc is not None:
        with open(p + ".json", "w") as f:
            json.dump(doc, f, indent=1, sort_keys=True, default=str)
    return p


def violation(pid, path, what=""):
    sys.stdout.write("VIOLATION property=%s replay=%s\n" % (pid, path))
    if what:
        sys.stdout.write("  what: %s\n" % what.replace("\n", " ")[:1800])
    sys.stdout.flush()


# ---- known findings -------------------------------------------------------------------------
def known_findings(pid):
    """Lines of /verif/known_findings.txt for this property: list of dicts {kind, sig, repro, what}"""
    out = []
    p = os.path.join(VERIF, "known_findings.txt")
    if not os.path.exists(p):
        return out
    for line in open(p):
        line = line.strip()
        if not line or line.startswith("#"):
            continue
        kind, _, rest = line.partition(":")
        rest = rest.strip()
        fields = {}
        words = rest.split(" ")
        i = 0
        while i < len(words) and "=" in words[i] and words[i].split("=", 1)[0] in ("property", "sig", "repro"):
            k, v = words[i].split("=", 1)
            fields[k] = v
            i += 1
        if fields.get("property") != pid:
            continue
        fields["kind"] = kind.strip()
        fields["what"] = " ".join(words[i:])
        out.append(fields)
    return out


def print_known(pid, what):
    sys.stdout.write("KNOWN-FINDING: property=%s %s\n" % (pid, what))
    sys.stdout.flush()


def finish(ev, n_viol):
    ev.violations = n_viol
    hyp_mod = sys.modules.get("hyp")
    if hyp_mod is not None and getattr(hyp_mod, "UNCONFIRMED", None):
        ev.cov["unconfirmed_failures"] = hyp_mod.UNCONFIRMED[:10]      # found once, passed on replay: not reported as violations
    p = ev.write()
    sys.stdout.write("[%s %s] evaluations=%s distinct_nontrivial=%s violations=%d wall=%.0fs evidence=%s\n" % (
        ev.pid, ev.tier, ev.cov.get("evaluations"), ev.cov.get("distinct_nontrivial"), n_viol, time.time() - ev.t0, p))
    sys.exit(1 if n_viol else 0)
