#!/bin/sh
# try_mutant.sh <property> <patch.diff> [tier]   -- run one property's check against a scratch copy of /repo with the patch applied.
# Everything (worktree, build tree, evidence, replays) lives under /tmp/vmut_<pid>_<n> and is removed afterwards.
# Prints the tail of the check's output and "RESULT <property> <patch> caught|missed|error".
PID="$1"; PATCH="$2"; TIER="${3:-quick}"
TAG="$(basename "$PATCH" .diff)_$$"
S="/tmp/vmut_${PID}_${TAG}"
rm -rf "$S"; mkdir -p "$S"
git -C /repo worktree add --detach "$S/repo" HEAD >/dev/null 2>&1 || { echo "RESULT $PID $PATCH error(worktree)"; exit 2; }
if ! git -C "$S/repo" apply "$PATCH" 2>"$S/apply.err"; then
  echo "RESULT $PID $PATCH error(patch does not apply: $(head -1 "$S/apply.err"))"
  git -C /repo worktree remove --force "$S/repo"; rm -rf "$S"; exit 2
fi
cd /verif
VERIF_REPO="$S/repo" VERIF_SCRATCH="$S" ./check "$PID" "$TIER" > "$S/out.txt" 2>&1
RC=$?
grep -A1 "^VIOLATION" "$S/out.txt" | head -8
tail -2 "$S/out.txt"
if [ $RC -eq 1 ] && grep -q "^VIOLATION property=$PID" "$S/out.txt"; then V="caught";
elif [ $RC -eq 0 ]; then V="missed";
else V="error(rc=$RC)"; fi
echo "RESULT $PID $PATCH $V"
# the persistent record (latest line per change wins): verdict, tier, /verif commit, /repo commit, first violation text
echo "RESULT $PID $PATCH $V tier=$TIER verif=$(git -C /verif rev-parse --short HEAD) repo=$(git -C /repo rev-parse --short HEAD) :: $(grep -A1 '^VIOLATION' "$S/out.txt" | sed -n 2p | cut -c1-200)" >> /verif/.build/mutant_results.txt
git -C /repo worktree remove --force "$S/repo"; rm -rf "$S"
