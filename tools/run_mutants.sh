#!/bin/sh
# run_mutants.sh <PID>...  : try every incoming mutant of the given properties, append to .build/mutant_results.txt
for PID in "$@"; do
  for P in /verif/.build/incoming/$PID/m*.diff; do
    [ -f "$P" ] || continue
    /verif/tools/try_mutant.sh "$PID" "$P" quick > /verif/.build/mutant_$PID_$(basename $(dirname $P))_$(basename $P).log 2>&1
  done
done
