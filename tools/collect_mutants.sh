#!/bin/sh
# collect_mutants.sh <ID> <round>: copy a sub-agent's deliverables into .build/incoming/<ID>/ and remove its scratch worktree
ID="$1"; R="${2:-2}"; W="/tmp/mut${R}_$ID"; [ "$R" = 1 ] && W="/tmp/mut_$ID"
mkdir -p /verif/.build/incoming/$ID
for f in "$W"/mutants/m*; do case "$f" in *_build.log|*/_*) ;; *) [ -f "$f" ] && [ ! -x "$f" ] && [ $(stat -c %s "$f") -lt 300000 ] && cp "$f" /verif/.build/incoming/$ID/;; esac; done
git -C /repo worktree remove --force "$W" && rm -rf "$W"
ls /verif/.build/incoming/$ID
