#!/bin/sh
# sweep.sh <tier> <seed>... : runs every registered check once per seed, prints one summary line per run (soundness sweep on an unchanged tree)
TIER="$1"; shift
python3 tools/build.py all >/dev/null 2>&1
for SEED in "$@"; do
  for ID in C01 C02 C03 C04 C05 C06 C07 C08 C09 C10 C11 C12 C13 C14 C15 C16 C17 C18 C19 C20; do
    START=$(date +%s)
    VERIF_SEED=$SEED ./check $ID $TIER > sweep_${ID}_${SEED}.log 2>&1
    RC=$?
    echo "SWEEP seed=$SEED $ID rc=$RC secs=$(( $(date +%s) - START )) $(grep -c '^VIOLATION' sweep_${ID}_${SEED}.log) violations :: $(tail -1 sweep_${ID}_${SEED}.log | cut -c1-160)"
    grep -A1 '^VIOLATION' sweep_${ID}_${SEED}.log | head -6
  done
done
