#!/usr/bin/env python3
"""Round 3 (m5, m6): promotes the incoming changes of this round to /verif/seeded/<ID>/<mN>/ and rewrites the 'Round 3' section at the
end of seeded/README.md (rounds 1 and 2 were written by tools/seeded_table.py in the session that had their inputs; a fresh sandbox no
longer has them, so this script never rewrites their rows).  Inputs: .build/incoming/<ID>/m5*, m6*; .build/confirm_results*.json
(tools/confirm_all.py); .build/mutant_results.txt (tools/try_mutant.sh); the hand-written table below.
A change is *kept* (gets a directory with patch.diff + demonstration + meta.json) only when confirm_all.py confirmed it here: 295 tests
pass with it, its demonstration fails with it and passes without it.  The others are listed as 'not kept' with the reason."""
import glob
import json
import os
import shutil

VERIF = os.path.dirname(os.path.dirname(os.path.abspath(__file__)))
INC = os.path.join(VERIF, ".build", "incoming")

# (what was changed, what it needs in order to manifest, verdict of the check as it stood before this round's strengthening, what was strengthened)
ROUND3 = {
    "C01/m5": ("Id_Arg_List() builds the Arg_List node for a lambda's capture list only when the list is non-empty; Lambda() then finds two nodes instead of three and the Lambda node's constructor reads children[1] of a one-element vector during parse()",
               "a lambda whose capture list is written but empty: fun[](x) { ... }", None, ""),
    "C02/m5": ("new Constant_Fold branch: `true && X` / `false || X` are replaced by X itself (no bool check, no fresh value)",
               "a constant bool on the left of && / || with a non-bool or a variable on the right, in a context that observes type or identity (true && 5, var b := (true && a))",
               "missed (by analysis: no template put a non-bool or an aliased variable beside a constant operand of && / ||)", "C02 template 22"),
    "C02/m6": ("the shared counter of a compiled for loop is allocated once per loop *node* and reset on entry instead of once per entry",
               "the same constant-bound for statement entered again while an earlier entry still matters: recursion through the loop body, closures of an earlier entry called during a later one",
               "missed (by analysis: every loop template ran its loop node once)", "C02 templates 23/24"),
    "C04/m5": ("get_object consults the globals only when the node holds no cached function position", "a name that is first only a function, then also a global; the same Id node evaluated before and after (same effect as C04/m2)", None, ""),
    "C06/m5": ("Boxed_Number::get_as reads a 32-bit unsigned value as int32 (byte-for-byte C06/m4)", "an unsigned 32-bit value > INT_MAX converted to another arithmetic parameter type", "same change as C06/m4 (caught); not tried again", ""),
    "C09/m5": ("contains_var_decl_in_scope also skips While, If, Switch and Try children as 'having a scope of their own' (If has none for its condition)",
               "`if (var x = f()) {...}` as the only declaration of a block / loop body (same effect as C09/m3)", None, ""),
    "C11/m5": ("Static_Caster (Derived->Base) returns a non-owning cref for a const object held by shared_ptr instead of a co-owning shared_ptr<const Base>",
               "registered base_class; a const Derived held by shared_ptr; an implicit upcast whose result is kept (captured parameter `Base b`); the original handle dropped afterwards", None, ""),
    "C12/m5": ("one-argument resize(n) forwards to resize(n, value_type()): every new slot of a Vector is the same Boxed_Value object",
               "grow a Vector by >= 2 slots with resize(n), assign to one new slot, read another",
               "missed (the model skipped assignments into slots without a value)", "C12 v_set into value-less slots"),
    "C12/m6": ("Boxed_Value::copy_attrs copies attributes only when the target already has an attribute map: a copy of a range view loses the `internal_obj` attribute that keeps a temporary container alive",
               "a range over a temporary container, a copy of the view, the first view gone, then front/back/pop through the copy: heap-use-after-free",
               "missed (by analysis: every view was over a named container)", "C12 r_tmp"),
    "C15/m5": ("QuickFlatMap::find(key, hint) accepts the hinted slot when the wanted name is a *prefix* of the key stored there",
               "a cached position that, after set_state / re-registration in another order, holds a function whose name extends the wanted name (f1 / f10)", None, ""),
    "C19/m5": ("use() records the path before evaluating the file and erases it again only for file_not_found_error",
               "use(f) where evaluating f fails with a parse or run-time error, then use(f) again (same effect as C19/m2)", None, ""),
}


def main():
    conf = {}
    for f in sorted(glob.glob(os.path.join(VERIF, ".build", "confirm_results*.json")), key=os.path.getmtime):
        try:
            for k, v in json.load(open(f)).items():
                if k not in conf or v.get("confirmed") or not conf[k].get("tests"):
                    conf[k] = v
        except ValueError:
            pass
    verdict = {}
    mr = os.path.join(VERIF, ".build", "mutant_results.txt")
    if os.path.exists(mr):
        for line in open(mr):
            parts = line.split()
            if len(parts) >= 4 and parts[0] == "RESULT" and "/incoming/" in parts[2] and parts[2].endswith(".diff"):
                key = os.path.basename(os.path.dirname(parts[2])) + "/" + os.path.basename(parts[2])[:-5]
                verdict.setdefault(key, []).append((parts[1], parts[3]))
    rows = []
    for key in sorted(ROUND3):
        pid, m = key.split("/")
        what, needs, stood, strengthened = ROUND3[key]
        c = conf.get(key, {})
        vs = verdict.get(key, [])
        final = "; ".join("%s%s" % (v, "" if chk == pid else " by " + chk) for chk, v in vs[-1:]) or "not run"
        if stood is None:
            stood = vs[0][1] if vs else "not run"
        patch = os.path.join(INC, pid, m + ".diff")
        kept = bool(c.get("confirmed")) and os.path.exists(patch)
        d = os.path.join(VERIF, "seeded", pid, m)
        if kept:
            os.makedirs(d, exist_ok=True)
            shutil.copy(patch, os.path.join(d, "patch.diff"))
            for f in glob.glob(os.path.join(INC, pid, m + "_demo*")) + glob.glob(os.path.join(INC, pid, m + ".md")):
                if os.path.getsize(f) < 200000 and not os.access(f, os.X_OK):
                    shutil.copy(f, os.path.join(d, os.path.basename(f).replace(m + ".md", "notes.md")))
            meta = {"property": pid, "id": key, "round": 3, "what_was_changed": what, "needs_in_order_to_manifest": needs,
                    "written_by": "fresh sub-agent given only the property text and a scratch worktree",
                    "confirmed": {"repo_head": c.get("head"), "existing_tests_with_change": c.get("tests"),
                                  "demonstrations": [{k: v for k, v in dd.items() if k in ("demo", "mutated_exit", "clean_exit")} for dd in c.get("demos", [])],
                                  "how": "tools/confirm_all.py: scratch worktree of /repo HEAD + git apply; cmake/ninja build; ctest -j8; demo built/run against the patched and the clean tree"},
                    "check_verdict": {"as_the_check_stood": stood, "strengthened": strengthened, "final_quick_check": final,
                                      "how": "tools/try_mutant.sh %s <patch>: ./check %s quick with VERIF_REPO=<patched scratch copy> (equivalent to git -C /repo apply; ./check; git checkout)" % (pid, pid)}}
            json.dump(meta, open(os.path.join(d, "meta.json"), "w"), indent=1)
        why_not = ""
        if not kept:
            why_not = ("same change as an earlier one" if "byte-for-byte" in what else
                       "not confirmed here (tests: %s; demos: %s)" % (c.get("tests") or "not run for lack of time",
                                                                      "; ".join("%s/%s" % (dd.get("mutated_exit"), dd.get("clean_exit")) for dd in c.get("demos", [])) or "not run"))
        rows.append((key, what, needs, c, kept, why_not, stood, strengthened, final))
    readme = os.path.join(VERIF, "seeded", "README.md")
    text = open(readme).read()
    marker = "\n## Round 3"
    if marker in text:
        text = text[:text.index(marker)]
    text = text.rstrip("\n") + "\n" + marker + " (m5, m6; session 3)\n\nGenerated by tools/seeded_round3.py. Twelve sub-agents were started; the machine was overloaded by their builds (a full build took 25-45 minutes), so three " \
        "were stopped before their first change and the others were asked to wrap up early: 11 changes were delivered. `kept` as above (confirmed here); " \
        "`as it stood` = verdict of the property's quick check before this round's strengthening.\n\n" \
        "| change | what was changed | needs in order to manifest | tests with change | demo (changed/clean exit) | kept | check as it stood | strengthened | final quick check |\n|---|---|---|---|---|---|---|---|---|\n"
    for key, what, needs, c, kept, why_not, stood, strengthened, final in rows:
        demos = "; ".join("%s/%s" % (d.get("mutated_exit"), d.get("clean_exit")) for d in c.get("demos", [])) if c else ""
        tests = (c.get("tests") or "not run") if c else "not run"
        text += "| %s | %s | %s | %s | %s | %s | %s | %s | %s |\n" % (key, what, needs, tests.replace("|", "/"), demos, "yes" if kept else "no: " + why_not.replace("|", "/"), stood, strengthened or "-", final)
    open(readme, "w").write(text)
    print("rows", len(rows), "kept", sum(1 for r in rows if r[4]))


if __name__ == "__main__":
    main()
