"""Parallel Hypothesis driver.

A property module supplies
    strategy()            -> a Hypothesis strategy producing a JSON-serialisable *case*
    check(case, ctx)      -> raises Violation(what, detail) when the oracle is contradicted; may call ctx.nontrivial(...),
                             ctx.classify(...), ctx.sample(...)
Each of N worker processes runs Hypothesis with a seed derived from VERIF_SEED and its index, owns one C++ runner,
and returns its counters plus the shrunk failing case (the last failing call Hypothesis makes is the minimal one).
The parent merges, replays a failure three times outside Hypothesis, writes the replay file and reports.
"""
import hashlib
import json
import multiprocessing
import os
import sys
import time
import traceback

import vlib
import runner_client


class Violation(Exception):
    def __init__(self, what, detail=None):
        Exception.__init__(self, what)
        self.what = what
        self.detail = detail or {}


class Inconclusive(Exception):
    """case could not be decided (timeout, excluded known finding, ...): counted, never a violation"""
    def __init__(self, why):
        Exception.__init__(self, why)
        self.why = why


class Ctx:
    def __init__(self, idx, tier, runner_env=None):
        self.idx = idx
        self.tier = tier
        self.counts = {}
        self.tables = {}
        self.samples = []
        self.distinct = set()
        self._runner = None
        self._runner_env = runner_env
        self.current_nontrivial = False

    @property
    def runner(self):
        if self._runner is None:
            self._runner = runner_client.Runner(env=self._runner_env, tag="w%d" % self.idx)
        return self._runner

    def count(self, k, n=1):
        self.counts[k] = self.counts.get(k, 0) + n

    def classify(self, table, key, n=1):
        t = self.tables.setdefault(table, {})
        t[key] = t.get(key, 0) + n

    def nontrivial(self, key):
        self.distinct.add(hashlib.sha1(repr(key).encode("utf-8", "replace")).digest()[:8])

    def sample(self, s, limit=4):
        if len(self.samples) < limit:
            self.samples.append(s)

    def request(self, req):
        """runner request; a dying runner is a violation candidate (crash) or inconclusive (timeout)"""
        try:
            return self.runner.request(req)
        except runner_client.RunnerDied as e:
            if e.timeout:
                self.count("inconclusive_timeout")
                raise Inconclusive("case timed out")
            raise Violation("runner process died (rc=%s): %s" % (e.returncode, crash_line(e.stderr_tail)),
                            {"stderr_tail": e.stderr_tail[-3000:], "returncode": e.returncode})

    def close(self):
        if self._runner is not None:
            self._runner.close()
            self._runner = None


def crash_line(text):
    for line in text.splitlines():
        if "ERROR: AddressSanitizer" in line or "runtime error:" in line or "terminate called" in line or "ERROR: LeakSanitizer" in line \
                or "Assertion" in line or "ThreadSanitizer" in line:
            return line.strip()[:300]
    t = text.strip().splitlines()
    return t[-1][:300] if t else "no stderr"


def _worker(args):
    modname, idx, nworkers, examples, tier, base_seed, runner_env = args
    sys.path.insert(0, os.path.join(vlib.VERIF, "props"))
    sys.path.insert(0, os.path.join(vlib.VERIF, "model"))
    import importlib
    from hypothesis import given, settings, seed, HealthCheck, Phase, Verbosity
    mod = importlib.import_module(modname)
    ctx = Ctx(idx, tier, runner_env)
    last = {}
    t0 = time.time()

    @seed(base_seed * 1000003 + idx * 7919 + 17)
    @settings(max_examples=examples, database=None, deadline=None, derandomize=False, report_multiple_bugs=False,
              suppress_health_check=list(HealthCheck), phases=[Phase.generate, Phase.shrink], verbosity=Verbosity.quiet)
    @given(mod.strategy(tier) if _takes_arg(mod.strategy) else mod.strategy())
    def prop(case):
        ctx.count("evaluations")
        try:
            mod.check(case, ctx)
        except Inconclusive as e:
            ctx.classify("inconclusive", e.why)
        except Violation as v:
            last["case"] = case
            last["what"] = v.what
            last["detail"] = v.detail
            raise

    failure = None
    error = None
    try:
        prop()
    except Violation:
        failure = dict(last)
    except Exception:
        if last:
            failure = dict(last)  # Hypothesis wrapped it (e.g. Flaky); keep the recorded case
            failure["note"] = "hypothesis: " + traceback.format_exc()[-800:]
        else:
            error = traceback.format_exc()
    ctx.close()
    return {"idx": idx, "counts": ctx.counts, "tables": ctx.tables, "samples": ctx.samples, "distinct": list(ctx.distinct),
            "failure": failure, "error": error, "wall": time.time() - t0}


def _takes_arg(f):
    import inspect
    return len(inspect.signature(f).parameters) >= 1


def run(modname, ev, tier, examples_total, nworkers=None, runner_env=None):
    """Run the property in parallel; merge counters into the Evidence object; return list of confirmed failures."""
    nworkers = nworkers or vlib.NCPU
    per = max(1, examples_total // nworkers)
    base_seed = vlib.seed()
    jobs = [(modname, i, nworkers, per, tier, base_seed, runner_env) for i in range(nworkers)]
    ctxm = multiprocessing.get_context("fork")
    with ctxm.Pool(nworkers) as pool:
        results = pool.map(_worker, jobs)
    distinct = set()
    failures = []
    for r in results:
        if r["error"]:
            sys.stderr.write("HARNESS ERROR in worker %d:\n%s\n" % (r["idx"], r["error"]))
            raise SystemExit(2)
        for k, v in r["counts"].items():
            ev.count(k, v)
        for t, d in r["tables"].items():
            for k, v in d.items():
                ev.classify(t, k, v)
        for s in r["samples"][:2]:
            ev.sample(s, limit=16)
        distinct.update(bytes(x) for x in r["distinct"])
        if r["failure"]:
            failures.append(r["failure"])
    ev.cov["distinct_nontrivial"] = ev.cov.get("distinct_nontrivial", 0) + len(distinct)
    ev.cov["workers"] = nworkers
    ev.cov["examples_per_worker"] = per
    return failures


UNCONFIRMED = []      # failures found by a worker that a replay outside Hypothesis did not reproduce (reported in the evidence by vlib.finish)


def confirm(modname, failures, pid, times=3):
    """Replay each shrunk failure outside Hypothesis; keep those that fail every time. Returns [(replay_path, what)]."""
    import importlib
    mod = importlib.import_module(modname)
    confirmed = []
    seen = set()
    failures = sorted(failures, key=lambda f: len(json.dumps(f["case"], default=str)))
    for f in failures:
        key = getattr(mod, "root_cause", lambda f: f["what"][:60])(f)
        if key in seen:
            continue
        ok = passed = attempts = 0
        what = f["what"]
        # a replay that cannot be decided (time-out on a loaded machine) is repeated, not counted: the failure is dropped only when a replay PASSES
        while ok < times and passed == 0 and attempts < times * 5:
            attempts += 1
            ctx = Ctx(99, "replay")
            try:
                mod.check(f["case"], ctx)
                passed += 1
            except Violation as v:
                ok += 1
                what = v.what
            except Inconclusive:
                pass
            finally:
                ctx.close()
        if ok >= 1 and passed == 0:
            seen.add(key)
            doc = {"property": pid, "what": what, "case": f["case"], "detail": f.get("detail"), "replays": {"failed": ok, "passed": passed, "attempts": attempts}}
            confirmed.append((vlib.save_replay(pid, doc), what))
        else:
            sys.stderr.write("[%s] not reproducible (failed %d, passed %d of %d replays), dropped: %s\n" % (pid, ok, passed, attempts, f["what"][:200]))
            UNCONFIRMED.append({"what": f["what"][:300], "failed": ok, "passed": passed, "attempts": attempts})
    return confirmed


def replay(modname, path):
    import importlib
    mod = importlib.import_module(modname)
    doc = json.load(open(path))
    ctx = Ctx(99, "replay")
    try:
        mod.check(doc["case"], ctx)
    except Violation as v:
        print("FAILS: " + v.what)
        if v.detail:
            print(json.dumps(v.detail, indent=1, default=str)[:3000])
        return 1
    except Inconclusive as e:
        print("inconclusive: " + e.why)
        return 0
    finally:
        ctx.close()
    print("passes")
    return 0
