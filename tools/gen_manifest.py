#!/usr/bin/env python3
"""Regenerates MANIFEST.json from the table below (keeps the file valid at all times)."""
import json
import os

VERIF = os.path.dirname(os.path.dirname(os.path.abspath(__file__)))
ALL = ["C%02d" % i for i in range(1, 21)]

CHECKS = {
    "C01": dict(
        engine="libfuzzer+enumerator",
        category="exploration",
        technique="coverage-guided fuzzing (libFuzzer, ASan/UBSan) with an in-target semantic oracle; deterministic nesting enumeration; Hypothesis-generated inputs (mutated grammar programs, token soup in syntactic frames, constant expressions) through the same oracle",
        text="Random/coverage-guided search over byte strings against an explicit oracle (exception type, independent trivia scanner and token "
             "lexer for drop detection, junk-suffix metamorphic relation, sanitizers, bounded native stack). Finds violations; does not establish absence.",
        note="trusts ASan/UBSan and the harness lexer (common/parse_oracle.hpp); over-reads of exactly one byte past a std::string are invisible",
        design="4/C01"),
    "C02": dict(
        engine="hypothesis-runner",
        category="exploration",
        technique="differential property testing: the same generated program evaluated with the default optimizer pipeline and with optimization disabled, in one sanitizer-instrumented process",
        text="Generated programs (shared grammar-directed generator plus templates aimed at each rewrite's trigger and near misses) are evaluated on two "
             "fresh engines; stdout, result type and rendering, exception class and reason, the rec() log and the final state of C++ objects "
             "registered by reference must be equal. Non-triviality (the two parse trees differ) and the rewrites seen are measured from the trees.",
        note="both sides come from the same tree, so a defect common to both pipelines is invisible here (C03 covers that); ASan stack-use-after-return detection is on",
        design="4/C02"),
    "C03": dict(
        engine="hypothesis-runner",
        category="exploration",
        technique="model-based differential testing: grammar/type-directed program generation (Hypothesis) against an independent reference interpreter written in Python",
        text="Generated closed programs over the core language (printed with minimal parentheses and random layout so that precedence and line-continuation "
             "matter) are evaluated by the engine and by model/refchai.py; stdout, the rec() log, the final value (type-aware rendering) and the error "
             "class are compared. About 10% of programs carry one injected fault to exercise the error class.",
        note="the reference interpreter is mine (documented semantics, calibrated on the repaired tree: 0 disagreements over >50k programs); constructs it does not model are not generated (listed in evidence)",
        design="4/C03"),
    "C04": dict(
        engine="hypothesis-runner",
        category="exploration",
        technique="differential property testing: generated scope-layout-varying programs evaluated with the per-node lookup cache enabled and (via a guarded hook) disabled",
        text="Programs that re-evaluate the same identifier nodes under different scope layouts (eval-injected locals, conditional declarations, "
             "recursion, one lambda through four call forms, global/local flips, per-iteration declarations) must behave identically with the lookup "
             "cache on and off; the number of fast-path hits is measured to show the cache was exercised.",
        note="trusts the hook: with lookup_cache_off every lookup takes the by-name search; a defect common to both paths is left to C03 and to the generator-known expectations",
        design="4/C04"),
    "C05": dict(
        engine="rapidcheck+enumerator",
        category="exploration",
        technique="differential testing against natively compiled C++ expressions (templates/decltype as the oracle): exhaustive boundary-value matrix plus rapidcheck random operands, forked workers so traps are observed",
        text="Every (operator, lhs type, rhs type) cell over 14 arithmetic types is run on an exhaustive boundary-value matrix through the runtime-node "
             "and function routes (sampled on the two literal routes in the quick tier, exhaustive in thorough) plus rapidcheck-drawn random operands; "
             "value (bit-exact), result size/signedness/floating-ness, in-place update and aliasing of compound assignment, and the trap set are "
             "compared with the native expression. Exhaustive over the stated finite matrix, sampling beyond it.",
        note="trusts g++ -O2 on x86-64 as the reference semantics; UB-without-trap inputs are excluded by predicate (counted in evidence)",
        design="4/C05"),
    "C06": dict(
        engine="hypothesis-runner",
        category="exploration",
        technique="property-based testing of overload dispatch with a catalogue of logging C++ callables: validity invariants over the entry log from a conservative three-valued compatibility table",
        text="Generated (overload subset and registration order, registered conversions, argument tuple of script values of every kind, call syntax) "
             "cases; each call enters at most one overload, exactly one on success and none on failure; the entered overload is never one the "
             "arguments cannot convert to; an exactly matching overload is preferred; impossible calls fail without entering anything; every "
             "parameter receives the script's object (address) or its converted value. The same table decides boxed_cast<T> requests.",
        note="the compatibility table is mine and three-valued: pairs not settled by the documentation carry no claim; catalogue functions do not throw",
        design="4/C06"),
    "C07": dict(
        engine="hypothesis-runner",
        category="exploration",
        technique="property-based testing over (const source kind x alias chain x mutator) with read-back of the underlying C++ objects through the harness's own pointers",
        text="Every kind of const source (literals, const_var, add_global_const, const reference/pointer/shared_ptr<const T>, const returns) is reached "
             "through generated alias chains (reference declaration, :=, parameter, capture, return, bind, container/attribute insertion by reference) "
             "and attacked with every mutator; the attempt must raise, no C++ function with a mutable parameter may be entered and the C++ objects "
             "must be unchanged; chains containing a copy check that the source stays unchanged.",
        note="element-level mutation through const containers is a recorded known finding (excluded by construction, replayed on every run); shared_ptr<arithmetic> parameters are not required to raise",
        design="4/C07"),
    "C08": dict(
        engine="hypothesis-runner",
        category="exploration",
        technique="metamorphic property testing: repeated evaluation of generated literal-building/mutating function bodies and of a tree parsed once (call_i == call_1, deep tree dump unchanged)",
        text="Generated bodies build values from every literal kind and mutate the local results by every route; each function is called 3..6 times "
             "interleaved with others and the same bodies are evaluated 3..5 times through eval(AST_Node); all observations must equal the first, "
             "and a deep dump of the tree including each Constant node's value must be unchanged. A second family does the same for closures made "
             "from temporaries.",
        note="comparison is the engine against itself over time (no model); mutations are wrapped in try/catch so rejected ones do not end the body",
        design="4/C08"),
    "C09": dict(
        engine="hypothesis-runner",
        category="fault_enumeration",
        technique="fault injection enumerated over every callback invocation of each generated program (Hypothesis-generated programs x k-th cb() call x exception kind), invariant on the engine's stack shape",
        text="For each generated program every dynamic invocation of the harness callback (up to a cap) is made to throw, once per exception kind, on a "
             "fresh engine; after eval the thread's stack holder (stacks, scopes, call_params, call depth, conversion saves) must equal the pre-call "
             "shape, get_locals() must hold exactly the completed top-level declarations, and a follow-up script must evaluate normally.",
        note="enumeration is complete per program only up to the callback cap (10 quick / 25 thorough) and over 2 (quick) or 6 (thorough) exception kinds; shape read through a guarded accessor",
        design="4/C09"),
    "C10": dict(
        engine="hypothesis-runner",
        category="exploration",
        technique="model-based property testing: generated try/catch/finally nests in call frames vs a Python model of exception propagation (marker trace + escaping exception type)",
        text="Generated nests of try/typed+untyped catch/finally inside def/lambda/method/bind/for_each/attribute frames with script- and C++-thrown "
             "exceptions (also from catch and finally bodies); the printed marker trace and the dynamic type of whatever leaves eval are compared with "
             "the model, with and without an exception_specification.",
        note="the propagation model (first clause matching the dynamic type or a registered base wins; finally exactly once) is mine, written from the property and the documentation",
        design="4/C10"),
    "C11": dict(
        engine="hypothesis-runner",
        category="exploration",
        technique="property-based testing with an instrumented C++ class and a registry that outlives the objects (invariants over construction/destruction/use histories), under ASan",
        text="Generated programs create, copy, store, capture, pass, return and drop instances of an instrumented class in every way the API offers, "
             "with scopes ending normally, by script throw and by a throwing C++ callee; at checkpoints the number of live instances must equal the "
             "model's count and every referenced instance is touched; nothing may be destroyed twice or used after destruction; after set_locals({}) "
             "and engine destruction exactly the instances held by the C++ side survive.",
        note="the live-count model (which operations copy) is mine and calibrated on the repaired tree; references into temporaries kept beyond the statement are outside the domain",
        design="4/C11"),
    "C12": dict(
        engine="hypothesis-runner",
        category="exploration",
        technique="model-based stateful property testing (Hypothesis-generated operation sequences vs Python list/dict/str models), ASan/UBSan on",
        text="Operation sequences with boundary indices on a live engine; after every step the result (or 'raised') and a full scan of every "
             "container are compared with the model; any sanitizer report or crash is a violation.",
        note="the Python models of std::vector/map/string semantics are mine; range views only while the container is not structurally modified",
        design="4/C12"),
    "C13": dict(
        engine="tsan-stress",
        category="exploration",
        technique="randomized concurrency stress testing under ThreadSanitizer: seeded multi-thread workloads on one engine with known expected results, repeated with seeded yields",
        text="Seeded workloads run 2-16 threads against one engine (shared function calls, same-named locals, thread-unique and deliberately contended "
             "registrations from script and C++, conversions, use() of one file, get_state); ThreadSanitizer must stay silent, every result must equal "
             "its arithmetically known value, nothing registered may be lost, exactly one of several simultaneous registrations of one name may "
             "succeed, and the used file must run once. A failing workload is replayed 5 times and reported when it fails at least twice.",
        note="schedules are sampled, not enumerated (stated weakness of the technique for this property); TSan sees a race on any schedule where the two accesses are unordered, but not between two cold paths that are never executed concurrently",
        design="4/C13"),
    "C14": dict(
        engine="hypothesis-runner",
        category="exploration",
        technique="model-based property testing over generated create/eval/destroy histories on reusable engine slots (placement new at a fixed address, heap) driven from long-lived threads",
        text="Histories create, use and destroy engines in four slots (two of them static buffers, so that addresses are reused) from the main thread "
             "and three worker threads that outlive every engine; each probe and get_locals() is compared with a dictionary model per engine "
             "instance (locals per thread, globals and functions per instance).",
        note="operations of a history run one at a time; the model of name lookup (thread's locals, then globals, then functions) is mine",
        design="4/C14"),
    "C15": dict(
        engine="hypothesis-runner",
        category="exploration",
        technique="model-based stateful property testing: generated histories of definitions, registrations, use(), get_state and set_state(any earlier snapshot) against a dictionary model",
        text="After every step the engine's overload counts, function objects, function_exists, globals (values of const ones), type names, used-file "
             "records and top-level locals are compared with the model, and every modelled function is probe-called with an int and a string "
             "argument (directly, and through a long-lived function defined before the first snapshot); re-adding something removed by a restore "
             "must succeed and re-adding something present must fail.",
        note="the dictionary model is mine; mutable globals' values are shared with snapshots by design and not compared; loadable binary modules are not exercised",
        design="4/C15"),
    "C16": dict(
        engine="hypothesis-runner",
        category="exploration",
        technique="property-based testing (Hypothesis) against a reference literal decoder / C++ typing ladder; exhaustive boundary grid; keyword hash-collider search at check time",
        text="Exhaustive integer boundary grid (base x suffix x 2^k+-1) plus random literals compared with the C++ typing ladder; random float "
             "spellings vs correctly rounded values (16 ulp); strings/chars over an escape alphabet vs an independent decoder (REJECT must raise "
             "eval_error); identifiers colliding with keyword hashes are searched with the tree's own hash function and must behave as ordinary names.",
        note="trusts numpy/Python float parsing as the correctly-rounded reference and the reference decoder in props/c16.py; LP64 widths",
        design="4/C16"),
    "C17": dict(
        engine="hypothesis-runner",
        category="exploration",
        technique="property-based testing (Hypothesis) against Python functional specifications of each prelude function",
        text="Generated (function, container, callback, numeric argument) cases; result, callback trace (order, once per element, short-circuit) "
             "and input integrity compared with a Python specification.",
        note="specifications are mine, written from the prelude's comments and names; runner output rendering is trusted",
        design="4/C17"),
    "C18": dict(
        engine="hypothesis-runner+libfuzzer",
        category="exploration",
        technique="round-trip property testing (Hypothesis value trees, structural comparison in C++) and coverage-guided fuzzing of from_json with an in-target round-trip oracle; nesting enumeration",
        text="Generated JSON-able value trees must satisfy from_json(to_json(v)) == v; arbitrary bytes into from_json must return or throw "
             "std::exception, and accepted texts must satisfy the second round-trip law (floats to 1e-6); deep nesting is enumerated up to 10^6 "
             "under ASan and under a 1 MiB stack in the g++ -O2 build.",
        note="trusts the C++ structural comparison (common/json_equiv.hpp) and ASan; non-finite numbers excluded and counted",
        design="4/C18"),
    "C19": dict(
        engine="hypothesis-runner",
        category="exploration",
        technique="differential property testing (eval_file vs eval of the same bytes on a twin engine) and model-based histories of use()/eval_file() over generated file layouts",
        text="Generated file contents of every length (BOM, partial BOM, CRLF, shebang, NULs) are written to disk and eval_file (C++ and script) is "
             "compared with eval of the bytes; use()/eval_file() histories over files in several use paths are compared with a set-of-used-paths model "
             "(evaluation trace, exception class, name carried by file_not_found_error).",
        note="the use() model is mine (documented first-hit search, once per resolved path); real files under /verif/.build/work",
        design="4/C19"),
    "C20": dict(
        engine="hypothesis-runner",
        category="exploration",
        technique="property-based testing with a layout engine as oracle: generated multi-chunk programs with one injected fault at a generator-known (file, line, column, call depth)",
        text="Programs spread over files and named eval() chunks with random comments, blank lines, tabs, LF/CRLF and call sites in many syntactic "
             "positions carry exactly one fault; call_stack[0] must be the failing construct's position and the Fun_Call entries must be, innermost "
             "first, exactly the generated call sites with their own file, line and column.",
        note="positions come from the generator's own byte-accurate layout; only start positions and file names are compared",
        design="4/C20"),
}

PENDING_REASON = "check not built yet in this round (planned, see DESIGN.md section 4); not claimed until its machinery exists and is calibrated"


def main():
    checks = []
    for pid in ALL:
        if pid not in CHECKS:
            continue
        c = CHECKS[pid]
        checks.append({
            "property_id": pid,
            "quick_cmd": "./check %s quick" % pid,
            "thorough_cmd": "./check %s thorough" % pid,
            "evidence_file": "/verif/evidence/%s.json" % pid,
            "replay_cmd_template": "./check %s --replay {path}" % pid,
            "engine": c["engine"],
            "level_claimed": {"category": c["category"], "text": c["text"], "design_ref": "DESIGN.md section " + c["design"]},
            "level_note": c["note"],
            "technique": c["technique"],
        })
    hooks_commits = []
    hp = os.path.join(VERIF, "hooks_commits.txt")
    if os.path.exists(hp):
        hooks_commits = [l.split()[0] for l in open(hp) if l.strip() and not l.startswith("#")]
    m = {
        "version": 1,
        "setup_cmd": "python3 tools/build.py all",
        "hooks": {
            "guard": "CHAISCRIPT_VERIF",
            "enable": "every harness translation unit is compiled with -DCHAISCRIPT_VERIF against /repo/include (tools/build.py)",
            "baseline_off_cmd": "cmake -G Ninja -S /repo -B /repo/_build -DCMAKE_BUILD_TYPE=RelWithDebInfo -DCMAKE_CXX_FLAGS=-Wno-error && cmake --build /repo/_build -j16 && ctest --test-dir /repo/_build -j8 --timeout 900",
            "source_commits": hooks_commits,
            "add_only": True,
        },
        "engines": [
            {"name": "libfuzzer", "path": "fuzz/", "serves_properties": ["C01", "C16", "C18"], "kind_free_text": "libFuzzer targets with in-target oracles (clang -fsanitize=fuzzer,address,undefined)"},
            {"name": "tsan-stress", "path": "threads/", "serves_properties": ["C13"], "kind_free_text": "seeded multi-thread workloads under ThreadSanitizer"},
            {"name": "rapidcheck+enumerator", "path": "arith/", "serves_properties": ["C05"], "kind_free_text": "in-process differential against natively compiled arithmetic; rapidcheck for random operands"},
            {"name": "hypothesis-runner", "path": "runner/ + props/", "serves_properties": ["C01", "C02", "C03", "C04", "C06", "C07", "C08", "C09", "C10", "C11", "C12", "C14", "C15", "C16", "C17", "C18", "C19", "C20"], "kind_free_text": "Hypothesis strategies and Python models driving a persistent ASan-instrumented C++ runner over a pipe"},
        ],
        "checks": checks,
        "not_applicable": [{"property_id": p, "reason": PENDING_REASON} for p in ALL if p not in CHECKS],
        "notes": "All checks rebuild from /repo's working tree through tools/build.py (content-hash stamps). VERIF_SEED selects the PRNG seed; 0 is remapped to 1.",
    }
    with open(os.path.join(VERIF, "MANIFEST.json"), "w") as f:
        json.dump(m, f, indent=1)
        f.write("\n")


if __name__ == "__main__":
    main()
