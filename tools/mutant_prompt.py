#!/usr/bin/env python3
"""Prints the prompt given to a mutation sub-agent for one property (only the property text and a scratch worktree)."""
import json, sys
pid = sys.argv[1]
rnd = int(sys.argv[2]) if len(sys.argv) > 2 else 1
wt = "/tmp/mut%s_%s" % ("" if rnd == 1 else str(rnd), pid)
A, B = "m%d" % (2 * rnd - 1), "m%d" % (2 * rnd)
props = {json.loads(l)["id"]: json.loads(l) for l in open("/verif/properties.jsonl")}
p = props[pid]
print(f"""You are helping to evaluate a test/verification effort for ChaiScript (header-only embedded scripting language for C++).
Your job: produce TWO independent *subtle bugs* (mutations) of the ChaiScript source that each BREAK the semantic property below,
while the library still compiles and the repository's existing test suite still passes. You work ONLY inside your own scratch git
worktree {wt} (a checkout of the repository). Do NOT touch /repo or /verif or any other directory, and do not read /verif.

PROPERTY {pid}: {p['title']}
Statement: {p['statement']}
Quantified over: {p['quantifier']['text']}

What I need from you, for each of the two mutations (call them {A} and {B}):
  1. A source change under {wt}/include/chaiscript/ (the library is header-only) that makes the property FALSE for some inputs.
     - It must look like a plausible programming mistake or "optimisation" a maintainer could make (off-by-one, dropped check, wrong
       branch, stale cache, missing cleanup on an error path, two sites that each look fine alone ...), NOT a blatant sabotage.
     - It must need something SPECIFIC to manifest: an unusual input, a multi-step sequence of operations, a particular nesting, an
       error path, a particular interleaving -- NOT something every ordinary script would expose at once. The existing 295 tests
       must still pass with it, so it cannot break behaviour the tests exercise.
     - Never edit code inside `#ifdef CHAISCRIPT_VERIF` blocks (those are instrumentation hooks, keep them intact), and do not
       edit the tests.
     - {A} and {B} must have different root causes / sit in different functions, and each must apply on its own to the clean tree.
  2. A small demonstration: a C++ program (or a .chai script run through the built `chai` interpreter) that FAILS (wrong output,
     wrong exception, crash, sanitizer report...) with the mutation and PASSES on the clean tree. State exactly how to build/run it.
  3. Proof that the existing test suite still passes with the mutation applied.

How to build and test (takes ~3 minutes per full build on this machine; please do not run more than one build at a time):
    cd {wt}
    cmake -G Ninja -S . -B _build -DCMAKE_BUILD_TYPE=RelWithDebInfo -DCMAKE_CXX_FLAGS=-Wno-error >/dev/null
    cmake --build _build -j8 2>&1 | tail -3
    ctest --test-dir _build -j8 --timeout 900 2>&1 | tail -5        # must report 100% tests passed, 0 failed out of 295
  A standalone demo program can be compiled quickly with e.g.
    g++ -std=c++17 -O1 -I{wt}/include demo.cpp -o demo -lpthread -ldl          (about 1 minute; add -fsanitize=address if useful)
  The interpreter binary is {wt}/_build/chai (usage: chai file.chai).
  There is no network access. Work only with what is installed.

Deliverables -- write these files (create the directory {wt}/mutants/):
    {wt}/mutants/{A}.diff      `git diff` of mutation 1 against the clean tree (must apply with `git apply` on the clean HEAD)
    {wt}/mutants/{A}_demo.*    the demonstration (source/script) for {A}
    {wt}/mutants/{A}.md        short notes: what was changed and why it breaks the property; what it needs in order to manifest;
                              exact commands you ran for the demo on clean and mutated tree with their observed output; the ctest
                              summary line with the mutation applied
    {wt}/mutants/{B}.diff, {B}_demo.*, {B}.md   likewise for mutation 2
  Produce each diff with `git -C {wt} diff -- include > mutants/mN.diff`, then `git -C {wt} checkout -- include` before starting
  the next one, so that the worktree's tracked files are clean at the end (only the untracked mutants/ and _build/ remain).
  Do not commit anything.

Finish with a brief report (a few lines per mutation: file/function changed, trigger, demo result clean vs mutated, ctest result).
If after serious effort you can only produce one valid mutation, deliver that one and say so.""")
