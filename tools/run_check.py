import importlib
import os
import sys

HERE = os.path.dirname(os.path.abspath(__file__))
VERIF = os.path.dirname(HERE)
sys.path.insert(0, HERE)
sys.path.insert(0, os.path.join(VERIF, "props"))
sys.path.insert(0, os.path.join(VERIF, "model"))


def main():
    if len(sys.argv) < 3:
        raise SystemExit("usage: check <ID> quick|thorough | check <ID> --replay <file>")
    pid = sys.argv[1].upper()
    os.chdir(VERIF)
    mod = importlib.import_module(pid.lower())
    if sys.argv[2] == "--replay":
        sys.exit(mod.replay(sys.argv[3]))
    tier = sys.argv[2]
    if tier not in ("quick", "thorough"):
        raise SystemExit("tier must be quick or thorough")
    os.environ["VERIF_TIER"] = tier
    mod.main(tier)


main()
