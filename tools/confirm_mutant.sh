#!/bin/sh
# confirm_mutant.sh <patch.diff>  -- confirms in a scratch worktree that the patched tree still builds and passes the 295 tests.
PATCH="$1"
S="/tmp/vconf_$$"
rm -rf "$S"
git -C /repo worktree add --detach "$S" HEAD >/dev/null 2>&1 || exit 2
if ! git -C "$S" apply "$PATCH"; then echo "CONFIRM $PATCH patch-does-not-apply"; git -C /repo worktree remove --force "$S"; exit 2; fi
cd "$S" && cmake -G Ninja -S . -B _build -DCMAKE_BUILD_TYPE=RelWithDebInfo -DCMAKE_CXX_FLAGS=-Wno-error >/dev/null 2>&1 && cmake --build _build -j12 >/dev/null 2>&1
BRC=$?
if [ $BRC -ne 0 ]; then echo "CONFIRM $PATCH build-failed"; else
  R=$(ctest --test-dir _build -j8 --timeout 900 2>&1 | grep "tests passed")
  echo "CONFIRM $PATCH $R"
  # keep the mutated interpreter and headers for the demo run
  if [ -n "$2" ]; then mkdir -p "$2"; cp _build/chai "$2/chai_mut" 2>/dev/null; fi
fi
cd /; git -C /repo worktree remove --force "$S"; rm -rf "$S"
