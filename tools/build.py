#!/usr/bin/env python3
"""Content-hash keyed builds of the verification binaries against /repo's *current working tree*.

usage: build.py <target>... | all | --list
Every object is stamped with sha256(flags + source + every file under /repo/include +
/verif common headers); a stale stamp triggers a rebuild.  A file lock serialises concurrent
builders (twenty checks started together build once).  Nothing lives under /tmp.
"""
import fcntl
import hashlib
import os
import subprocess
import sys
import time
from concurrent.futures import ThreadPoolExecutor

VERIF = os.path.dirname(os.path.dirname(os.path.abspath(__file__)))
REPO = os.environ.get("VERIF_REPO", "/repo")
BUILD = os.path.join(os.environ.get("VERIF_SCRATCH") or VERIF, ".build")
GUARD = "CHAISCRIPT_VERIF"

UBSAN_OFF = "signed-integer-overflow,shift,float-cast-overflow,float-divide-by-zero"
COMMON = ["-std=gnu++17", "-g", "-D" + GUARD, "-I" + os.path.join(REPO, "include"), "-I" + VERIF,
          "-Wno-everything"]
FLAVOURS = {
    # clang, asserts on, ASan + trapping UBSan, libFuzzer coverage instrumentation (harmless for
    # non-fuzz binaries: the ASan runtime supplies the default coverage callbacks)
    "asan": dict(cxx="clang++", cflags=["-O1", "-fno-omit-frame-pointer", "-fsanitize=fuzzer-no-link,address,undefined",
                                        "-fno-sanitize=" + UBSAN_OFF, "-fno-sanitize-recover=undefined"],
                 ldflags=["-fsanitize=address,undefined", "-lpthread", "-ldl"]),
    "tsan": dict(cxx="clang++", cflags=["-O1", "-fno-omit-frame-pointer", "-fsanitize=thread"],
                 ldflags=["-fsanitize=thread", "-lpthread", "-ldl"]),
    "plain": dict(cxx="g++", cflags=["-O2", "-w"], ldflags=["-lpthread", "-ldl"]),
}

LIBS = ["lib/stdlib.cpp", "lib/parsers.cpp"]
RUNNER_SRCS = sorted("runner/" + f for f in os.listdir(os.path.join(VERIF, "runner")) if f.endswith(".cpp"))
TARGETS = {
    "fuzz_parse": dict(flavour="asan", srcs=LIBS + ["fuzz/parse.cpp"], ld=["-fsanitize=fuzzer"]),
    "parse_oracle": dict(flavour="asan", srcs=LIBS + ["fuzz/parse.cpp", "fuzz/standalone_main.cpp"]),
    "parse_depth_plain": dict(flavour="plain", srcs=LIBS + ["fuzz/parse.cpp", "fuzz/standalone_main.cpp"]),
    "runner": dict(flavour="asan", srcs=LIBS + RUNNER_SRCS),
    "fuzz_json": dict(flavour="asan", srcs=LIBS + ["fuzz/json.cpp"], ld=["-fsanitize=fuzzer"]),
    "json_oracle": dict(flavour="asan", srcs=LIBS + ["fuzz/json.cpp", "fuzz/standalone_main.cpp"]),
    "json_plain": dict(flavour="plain", srcs=LIBS + ["fuzz/json.cpp", "fuzz/standalone_main.cpp"]),
    "stress_tsan": dict(flavour="tsan", srcs=LIBS + ["threads/stress.cpp"]),
    "collide": dict(flavour="plain", srcs=["tools_cpp/collide.cpp"]),
    "arith": dict(flavour="plain", srcs=LIBS + ["arith/arith.cpp"], ld=["-lrapidcheck"]),
}


def load_extra_targets():
    pass


def tree_hash():
    h = hashlib.sha256()
    roots = [os.path.join(REPO, "include")]
    for root in roots:
        for d, dirs, files in sorted(os.walk(root)):
            dirs.sort()
            for f in sorted(files):
                if f.endswith((".hpp", ".h", ".cpp")):
                    p = os.path.join(d, f)
                    h.update(p.encode())
                    with open(p, "rb") as fh:
                        h.update(fh.read())
    return h.hexdigest()


def obj_key(flv, src, extra, th):
    h = hashlib.sha256()
    h.update(th.encode())
    h.update(repr((FLAVOURS[flv], COMMON, extra)).encode())
    with open(os.path.join(VERIF, src), "rb") as fh:
        h.update(fh.read())
    # harness-local headers next to the source, plus common/ for everything but the two heavy lib objects
    dirs = [os.path.dirname(os.path.join(VERIF, src))]
    if not src.startswith("lib/"):
        dirs.append(os.path.join(VERIF, "common"))
    for d in dirs:
        for f in sorted(os.listdir(d)):
            if f.endswith((".hpp", ".h", ".inc")):
                with open(os.path.join(d, f), "rb") as fh:
                    h.update(fh.read())
    return h.hexdigest()


def compile_obj(flv, src, extra, th, log):
    out = os.path.join(BUILD, flv, src.replace("/", "__") + ("." + hashlib.md5(repr(extra).encode()).hexdigest()[:6] if extra else "") + ".o")
    os.makedirs(os.path.dirname(out), exist_ok=True)
    key = obj_key(flv, src, extra, th)
    stamp = out + ".stamp"
    if os.path.exists(out) and os.path.exists(stamp) and open(stamp).read() == key:
        return out, False
    f = FLAVOURS[flv]
    cmd = [f["cxx"]] + COMMON + f["cflags"] + list(extra) + ["-c", os.path.join(VERIF, src), "-o", out]
    t0 = time.time()
    r = subprocess.run(cmd, stdout=subprocess.PIPE, stderr=subprocess.STDOUT, text=True)
    if r.returncode != 0:
        sys.stderr.write("BUILD FAILED: %s\n%s\n" % (" ".join(cmd), r.stdout[-6000:]))
        raise SystemExit(2)
    open(stamp, "w").write(key)
    log.append("%s [%s] %.0fs" % (src, flv, time.time() - t0))
    return out, True


def build(names, quiet=False):
    load_extra_targets()
    if names == ["all"]:
        names = list(TARGETS)
    os.makedirs(BUILD, exist_ok=True)
    lock = open(os.path.join(BUILD, "lock"), "w")
    fcntl.flock(lock, fcntl.LOCK_EX)
    try:
        th = tree_hash()
        jobs = {}
        for n in names:
            t = TARGETS[n]
            for s in t["srcs"]:
                extra = tuple(t.get("cdefs", {}).get(s, ()))
                jobs[(t["flavour"], s, extra)] = None
        log = []
        with ThreadPoolExecutor(max_workers=int(os.environ.get("VERIF_JOBS", "16"))) as ex:
            futs = {k: ex.submit(compile_obj, k[0], k[1], k[2], th, log) for k in jobs}
            for k, fu in futs.items():
                jobs[k] = fu.result()
        for n in names:
            t = TARGETS[n]
            flv = t["flavour"]
            objs = []
            for s in t["srcs"]:
                extra = tuple(t.get("cdefs", {}).get(s, ()))
                objs.append(jobs[(flv, s, extra)][0])
            out = os.path.join(BUILD, "bin", n)
            os.makedirs(os.path.dirname(out), exist_ok=True)
            # the binary is current iff it was linked from exactly these object contents (objects are shared between targets,
            # so "an object was recompiled in this invocation" is not enough)
            lkey = hashlib.sha256(repr([(o, open(o + ".stamp").read()) for o in objs] + [FLAVOURS[flv]["ldflags"], t.get("ld", [])]).encode()).hexdigest()
            lstamp = out + ".linkstamp"
            if not os.path.exists(out) or not os.path.exists(lstamp) or open(lstamp).read() != lkey:
                f = FLAVOURS[flv]
                cmd = [f["cxx"]] + objs + ["-o", out + ".tmp"] + f["ldflags"] + t.get("ld", [])
                r = subprocess.run(cmd, stdout=subprocess.PIPE, stderr=subprocess.STDOUT, text=True)
                if r.returncode != 0:
                    sys.stderr.write("LINK FAILED: %s\n%s\n" % (" ".join(cmd), r.stdout[-6000:]))
                    raise SystemExit(2)
                os.replace(out + ".tmp", out)
                open(lstamp, "w").write(lkey)
                log.append("link " + n)
        if log and not quiet:
            sys.stderr.write("[build] " + "; ".join(log) + "\n")
    finally:
        fcntl.flock(lock, fcntl.LOCK_UN)
    return {n: os.path.join(BUILD, "bin", n) for n in names}


if __name__ == "__main__":
    if sys.argv[1:] == ["--list"]:
        load_extra_targets()
        print("\n".join(TARGETS))
    else:
        build(sys.argv[1:] or ["all"])
