"""Pipe client for the C++ runner: one JSON line per request/reply, crash detection, restart."""
import json
import os
import signal
import subprocess
import tempfile

import vlib


class RunnerDied(Exception):
    def __init__(self, returncode, stderr_tail):
        Exception.__init__(self, "runner died rc=%s" % returncode)
        self.returncode = returncode
        self.stderr_tail = stderr_tail
        self.timeout = returncode == -signal.SIGALRM


class Runner:
    def __init__(self, binary=None, env=None, tag="r"):
        self.binary = binary or os.path.join(vlib.BIN, "runner")
        self.env = dict(os.environ)
        self.env.setdefault("ASAN_OPTIONS", "detect_leaks=0:abort_on_error=0:allocator_may_return_null=1:detect_stack_use_after_return=1")
        self.env.setdefault("UBSAN_OPTIONS", "print_stacktrace=1")
        if env:
            self.env.update(env)
        self.proc = None
        self.errf = None
        self.tag = tag
        self.restarts = 0

    def start(self):
        d = vlib.workdir("runner_logs")
        self.errf = tempfile.NamedTemporaryFile(prefix="stderr_%s_%d_" % (self.tag, os.getpid()), dir=d, delete=False)
        self.proc = subprocess.Popen([self.binary], stdin=subprocess.PIPE, stdout=subprocess.PIPE, stderr=self.errf, env=self.env)

    def close(self):
        if self.proc:
            try:
                self.proc.stdin.close()
                self.proc.wait(timeout=10)
            except Exception:
                self.proc.kill()
            self.proc = None
        if self.errf:
            try:
                self.errf.close()
                os.unlink(self.errf.name)
            except OSError:
                pass
            self.errf = None

    def request(self, req):
        """Send one request; raises RunnerDied (after restarting the runner) when the process dies on it."""
        if self.proc is None:
            self.start()
        line = json.dumps(req).encode("ascii") + b"\n"
        try:
            self.proc.stdin.write(line)
            self.proc.stdin.flush()
            reply = self.proc.stdout.readline()
        except (BrokenPipeError, OSError):
            reply = b""
        if not reply:
            rc = self.proc.wait()
            tail = ""
            try:
                with open(self.errf.name, "rb") as f:
                    f.seek(0, 2)
                    n = f.tell()
                    f.seek(max(0, n - 6000))
                    tail = f.read().decode("latin-1")
            except OSError:
                pass
            self.proc = None
            self.close()
            self.restarts += 1
            raise RunnerDied(rc, tail)
        r = json.loads(reply.decode("ascii"))
        if "harness_error" in r:
            raise RuntimeError("runner harness error: %s (request %s)" % (r["harness_error"], json.dumps(req)[:300]))
        return r

    def run(self, script, engines, **kw):
        req = {"cmd": "run", "script": script, "engines": engines}
        req.update(kw)
        return self.request(req)["results"]


def outcome(res):
    """Reduce one eval reply to a comparable observation."""
    o = {"out": res.get("out", "")}
    if "exc" in res:
        e = res["exc"]
        o["exc"] = e.get("kind")
        if e.get("kind") == "boxed":
            o["exc_val"] = e.get("r")
    else:
        o["res"] = res["res"]["r"]
    return o
