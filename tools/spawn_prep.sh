#!/bin/sh
# spawn_prep.sh <ID> <round>: scratch worktree + task file for a mutation sub-agent
ID="$1"; R="${2:-2}"; W="/tmp/mut${R}_$ID"
git -C /repo worktree add --detach "$W" HEAD >/dev/null 2>&1 || exit 1
python3 /verif/tools/mutant_prompt.py "$ID" "$R" > "$W/TASK.md"; echo "$W ready"
