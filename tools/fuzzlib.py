"""libFuzzer campaign helper: N parallel jobs for T seconds, aggregated in-target statistics, crash artifacts."""
import glob
import json
import os
import subprocess

import vlib


def campaign(binary, wd, njobs, secs, seed, dict_path=None, seeds_dir=None, max_lens=(4096,), timeout=25, extra_args=()):
    procs = []
    for j in range(njobs):
        jd = os.path.join(wd, "job%d" % j)
        os.makedirs(os.path.join(jd, "corpus"))
        args = [binary, "-max_len=%d" % max_lens[j % len(max_lens)], "-seed=%d" % (seed * 1000 + j + 1), "-max_total_time=%d" % secs,
                "-timeout=%d" % timeout, "-rss_limit_mb=4096", "-print_final_stats=1", "-artifact_prefix=" + jd + "/"] + list(extra_args)
        if dict_path:
            args.append("-dict=" + dict_path)
        args.append(os.path.join(jd, "corpus"))
        if seeds_dir and j % 2 == 1:
            args.append(seeds_dir)   # half of the jobs start from seed inputs, half from nothing
        env = dict(os.environ, VERIF_STATS=os.path.join(jd, "stats.json"), VERIF_VIOLATION=os.path.join(jd, "viol.json"), ASAN_OPTIONS="detect_leaks=0")
        procs.append((jd, subprocess.Popen(args, stdout=subprocess.DEVNULL, stderr=open(os.path.join(jd, "log.txt"), "w"), env=env)))
    agg, samples, artifacts, inconclusive = {}, [], [], 0
    for jd, p in procs:
        p.wait()
        sp = os.path.join(jd, "stats.json")
        if os.path.exists(sp):
            try:
                st = json.load(open(sp))
            except ValueError:
                st = {}
            for k, v in st.items():
                if isinstance(v, bool):
                    continue
                if isinstance(v, int):
                    agg[k] = agg.get(k, 0) + v
                elif isinstance(v, list) and v and all(isinstance(x, int) for x in v):
                    agg[k] = [a + b for a, b in zip(agg.get(k, [0] * len(v)), v)]
                elif isinstance(v, dict):
                    d = agg.setdefault(k, {})
                    for m, c in v.items():
                        d[m] = d.get(m, 0) + c
                elif k == "samples":
                    samples += v[:2]
        artifacts += sorted(glob.glob(os.path.join(jd, "crash-*")) + glob.glob(os.path.join(jd, "leak-*")))
        inconclusive += len(glob.glob(os.path.join(jd, "timeout-*")) + glob.glob(os.path.join(jd, "oom-*")) + glob.glob(os.path.join(jd, "slow-unit-*")))
    return agg, samples, artifacts, inconclusive
