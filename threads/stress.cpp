// C13 (engine T): one engine, many threads, under ThreadSanitizer.
//   stress <seed> <first_workload> <n_workloads> <reps>
// Each workload is a pure function of (seed, index): number of threads, per-thread operation lists, yield pattern.
// Prints one line per failure ("FAIL workload=<i> rep=<r> :: ...") and a final "STATS {...}" JSON line; a data race makes
// TSan abort the process with exit code 66 after printing its report (the driver then replays that workload alone).
#include <chaiscript/chaiscript_basic.hpp>
#include "lib/verif_lib.hpp"

#include <atomic>
#include <condition_variable>
#include <cstdio>
#include <fstream>
#include <mutex>
#include <random>
#include <sstream>
#include <thread>
#include <unistd.h>

using chaiscript::Boxed_Value;

template<int N> struct Tag { int v = N; };

static std::atomic<int> g_use_count{0};
static std::atomic<int> g_inside{0};
static std::atomic<int> g_max_inside{0};

struct Barrier {
  std::mutex m;
  std::condition_variable cv;
  int count, waiting = 0, gen = 0;
  explicit Barrier(int n) : count(n) {}
  void wait() {
    std::unique_lock<std::mutex> l(m);
    const int g = gen;
    if (++waiting == count) { ++gen; waiting = 0; cv.notify_all(); }
    else cv.wait(l, [&] { return g != gen; });
  }
};

struct Inside {
  Inside() { const int n = ++g_inside; int m = g_max_inside.load(); while (n > m && !g_max_inside.compare_exchange_weak(m, n)) {} }
  ~Inside() { --g_inside; }
};

template<int N>
static void add_conversion_pair(chaiscript::ChaiScript_Basic &chai, int which) {
  if constexpr (N >= 0) {
    if (which == N) {
      chai.add(chaiscript::user_type<Tag<2 * N>>(), "TagA" + std::to_string(N));
      chai.add(chaiscript::user_type<Tag<2 * N + 1>>(), "TagB" + std::to_string(N));
      chai.add(chaiscript::fun([]() { return Tag<2 * N>(); }), "make_a" + std::to_string(N));
      chai.add(chaiscript::fun([](const Tag<2 * N + 1> &t) { return t.v; }), "take_b" + std::to_string(N));
      chai.add(chaiscript::type_conversion<Tag<2 * N>, Tag<2 * N + 1>>([](const Tag<2 * N> &) { return Tag<2 * N + 1>(); }));
    } else {
      add_conversion_pair<N - 1>(chai, which);
    }
  }
}

// overloads of ONE name registered by all threads at the same moment: thread k contributes the overload taking Tag<100 + k>
template<int N>
static void add_tag_makers(chaiscript::ChaiScript_Basic &chai) {
  if constexpr (N >= 0) {
    chai.add(chaiscript::fun([]() { return Tag<100 + N>(); }), "mk_ov" + std::to_string(N));
    add_tag_makers<N - 1>(chai);
  }
}

template<int N>
static void add_overload_for(chaiscript::ChaiScript_Basic &chai, int which, const std::string &name, int round) {
  if constexpr (N >= 0) {
    if (which == N) chai.add(chaiscript::fun([round](const Tag<100 + N> &t) { return t.v * 1000 + round; }), name);
    else add_overload_for<N - 1>(chai, which, name, round);
  }
}

struct Failure { std::string text; };

static std::string run_workload(unsigned seed, int w, int rep, long &ops_done, std::string &sample) {
  std::mt19937 rng(seed * 2654435761u + static_cast<unsigned>(w) * 40503u + 7u);
  const int choices[] = {2, 4, 8, 16};
  const int T = choices[rng() % 4];
  const int nops = 30 + static_cast<int>(rng() % 50);
  chaiscript::ChaiScript_Basic chai(verif_stdlib(), verif_parser(true), {}, {"/"});
  g_use_count = 0;
  chai.add(chaiscript::fun([]() { return ++g_use_count; }), "use_count_incr");
  chai.eval("def shared_add(a, b) { var t = a + b; var u = t * 2; return u - t }\n"
            "def shared_loop(n) { var s = 0; for (var i = 0; i < n; ++i) { s += i }; s }\n"
            "class Shared { var v; def Shared(x) { this.v = x } def twice() { this.v * 2 } }\n"
            "def shared_str(s, k) { var r = s; for (var i = 0; i < k; ++i) { r += \"x\" }; r.size() }\n");
  const int overload_rounds = 8;
  add_tag_makers<15>(chai);
  for (int r = 1; r < overload_rounds; r += 2) chai.add(chaiscript::fun([](int x) { return x; }), "ovr_" + std::to_string(r));   // odd rounds: the name exists already and is being called
  char path[128];
  std::snprintf(path, sizeof path, "/dev/shm/verif_c13_use_%d_%d_%d.chai", static_cast<int>(getpid()), w, rep);
  { std::ofstream f(path); f << "use_count_incr()\ndef from_used_file() { 4242 }\n"; }
  const std::string use_name = std::string(path).substr(1);   // the use path is "/"
  Barrier barrier(T);
  std::mutex fail_mu;
  std::string failure;
  auto fail = [&](int tid, const std::string &what) {
    std::lock_guard<std::mutex> l(fail_mu);
    if (failure.empty()) failure = "thread " + std::to_string(tid) + ": " + what;
  };
  // per-thread plans are drawn up-front from the one seeded generator
  struct Op { int kind; int a; int b; int yield_us; };
  std::vector<std::vector<Op>> plans(static_cast<size_t>(T));
  for (int t = 0; t < T; ++t) {
    for (int j = 0; j < nops; ++j) plans[static_cast<size_t>(t)].push_back(Op{static_cast<int>(rng() % 12), static_cast<int>(rng() % 50), static_cast<int>(rng() % 20), static_cast<int>(rng() % 4 == 0 ? rng() % 50 : 0)});
  }
  {
    std::ostringstream ss;
    ss << "workload " << w << ": T=" << T << " ops/thread=" << nops << " first ops of thread 0:";
    for (int j = 0; j < 6 && j < nops; ++j) ss << " k" << plans[0][static_cast<size_t>(j)].kind;
    sample = ss.str();
  }
  std::atomic<long> ops{0};
  const int contended_rounds = 12;
  std::vector<std::atomic<int>> race_success(static_cast<size_t>(contended_rounds)), race_winner(static_cast<size_t>(contended_rounds));
  for (auto &a : race_success) a = 0;
  for (auto &a : race_winner) a = 0;
  auto body = [&](int tid) {
    barrier.wait();
    try {
      {
        Inside in;
        chai.eval("var tl = " + std::to_string(tid * 7 + 1));   // a top-level local of the same name on every thread
      }
      int defs = 0, globals = 0, classes = 0, cfuns = 0;
      bool conv_added = false;
      for (int j = 0; j < nops; ++j) {
        const Op &op = plans[static_cast<size_t>(tid)][static_cast<size_t>(j)];
        if (op.yield_us) std::this_thread::sleep_for(std::chrono::microseconds(op.yield_us)); else if (op.b % 3 == 0) std::this_thread::yield();
        Inside in;
        ++ops;
        const std::string id = "t" + std::to_string(tid) + "_" + std::to_string(j);
        switch (op.kind) {
          case 0: {
            const int r = chai.eval<int>("shared_add(" + std::to_string(op.a) + ", " + std::to_string(tid) + ")");
            if (r != op.a + tid) fail(tid, "shared_add gave " + std::to_string(r));
            break;
          }
          case 1: {
            const int r = chai.eval<int>("shared_loop(" + std::to_string(op.b) + ")");
            if (r != op.b * (op.b - 1) / 2) fail(tid, "shared_loop gave " + std::to_string(r));
            break;
          }
          case 2: {
            const int r = chai.eval<int>("{ var x = " + std::to_string(op.a) + "; var y = x + tl; y }");
            if (r != op.a + tid * 7 + 1) fail(tid, "locals of another thread are visible: got " + std::to_string(r) + " expected " + std::to_string(op.a + tid * 7 + 1));
            break;
          }
          case 3: {
            chai.eval("def f_" + id + "(q) { q + " + std::to_string(op.a) + " }");
            ++defs;
            const int r = chai.eval<int>("f_" + id + "(1)");
            if (r != 1 + op.a) fail(tid, "own new function gave " + std::to_string(r));
            break;
          }
          case 4: {
            chai.eval("global g_" + id + " = " + std::to_string(op.a));
            ++globals;
            if (chai.eval<int>("g_" + id) != op.a) fail(tid, "own new global wrong");
            break;
          }
          case 5: {
            chai.eval("class K_" + id + " { def K_" + id + "() { } def get() { " + std::to_string(op.a) + " } }");
            ++classes;
            if (chai.eval<int>("K_" + id + "().get()") != op.a) fail(tid, "own new class wrong");
            break;
          }
          case 6: {
            const int k = op.a;
            chai.add(chaiscript::fun([k](int x) { return x * k; }), "cf_" + id);
            ++cfuns;
            if (chai.eval<int>("cf_" + id + "(3)") != 3 * k) fail(tid, "own C++ function wrong");
            break;
          }
          case 7: {
            chai.add_global(chaiscript::var(op.a + 1000), "cg_" + id);
            if (chai.eval<int>("cg_" + id) != op.a + 1000) fail(tid, "own add_global wrong");
            break;
          }
          case 8: {
            if (!conv_added && tid < 16) {
              add_conversion_pair<15>(chai, tid);
              conv_added = true;
              const int r = chai.eval<int>("take_b" + std::to_string(tid) + "(make_a" + std::to_string(tid) + "())");
              if (r != 2 * tid + 1) fail(tid, "conversion result " + std::to_string(r));
            }
            break;
          }
          case 9: {
            chai.use(use_name);
            if (chai.eval<int>("from_used_file()") != 4242) fail(tid, "function from the used file missing after use() returned");
            break;
          }
          case 10: {
            const auto st = chai.get_state();
            if (st.engine_state.m_functions.size() == 0) fail(tid, "empty state");
            break;
          }
          default: {
            const int r = chai.eval<int>("int(Shared(" + std::to_string(op.a) + ").twice() + shared_str(\"ab\", " + std::to_string(op.b % 5) + "))");
            if (r != op.a * 2 + 2 + op.b % 5) fail(tid, "Shared/str gave " + std::to_string(r));
            break;
          }
        }
      }
      {
        Inside in;
        if (chai.eval<int>("tl") != tid * 7 + 1) fail(tid, "top-level local changed");
        const auto locals = chai.get_locals();
        if (locals.count("tl") != 1) fail(tid, "own local missing from get_locals");
      }
    } catch (const chaiscript::exception::eval_error &e) {
      fail(tid, std::string("eval_error: ") + e.pretty_print());
    } catch (const std::exception &e) {
      fail(tid, std::string("exception: ") + e.what());
    }
    barrier.wait();     // reached on every path, or the other threads would wait for ever
    // contended registrations: every thread registers the SAME new name at the same moment; exactly one registration may
    // report success, and what is visible afterwards is the winner's value
    for (int round = 0; round < contended_rounds; ++round) {
      barrier.wait();
      bool ok = false;
      try {
        Inside in;
        if (round % 2 == 0) chai.add_global(chaiscript::var(tid + 100), "race_g_" + std::to_string(round));
        else chai.eval("def race_f_" + std::to_string(round) + "() { " + std::to_string(tid + 100) + " }");
        ok = true;
      } catch (const std::exception &) {
      }
      if (ok) { ++race_success[static_cast<size_t>(round)]; race_winner[static_cast<size_t>(round)] = tid + 100; }
      barrier.wait();
      if (tid == 0) {
        try {
          const int seen = chai.eval<int>(round % 2 == 0 ? "race_g_" + std::to_string(round) : "race_f_" + std::to_string(round) + "()");
          if (race_success[static_cast<size_t>(round)].load() != 1) {
            fail(tid, std::to_string(race_success[static_cast<size_t>(round)].load()) + " threads were told that their registration of the same new name succeeded");
          } else if (seen != race_winner[static_cast<size_t>(round)].load()) {
            fail(tid, "a registration that reported success is not the one that is visible");
          }
        } catch (const std::exception &e) {
          fail(tid, std::string("contended registration left nothing behind: ") + e.what());
        }
      }
    }
    // contended overloads: every thread adds its OWN overload (a parameter type of its own) to the same name at the same moment,
    // on odd rounds while half of the threads are calling an overload of that name; all T overloads must be retained
    for (int round = 0; round < overload_rounds; ++round) {
      const std::string name = "ovr_" + std::to_string(round);
      barrier.wait();
      try {
        Inside in;
        if (round % 2 == 1 && tid % 2 == 1 && chai.eval<int>(name + "(5)") != 5) fail(tid, name + "(5) wrong while overloads are being added");
        add_overload_for<15>(chai, tid, name, round);
        if (chai.eval<int>(name + "(mk_ov" + std::to_string(tid) + "())") != (100 + tid) * 1000 + round) fail(tid, "own overload of " + name + " wrong after add() returned");
      } catch (const std::exception &e) {
        fail(tid, std::string("adding an overload to a shared name: ") + e.what());
      }
      barrier.wait();
      try {
        Inside in;
        for (int k = 0; k < T; ++k) {
          if (chai.eval<int>(name + "(mk_ov" + std::to_string(k) + "())") != (100 + k) * 1000 + round) fail(tid, "overload of " + name + " registered by thread " + std::to_string(k) + " wrong");
        }
        if (round % 2 == 1 && chai.eval<int>(name + "(7)") != 7) fail(tid, "the overload " + name + "(int) that existed before is lost");
      } catch (const std::exception &e) {
        fail(tid, "an overload of " + name + " registered concurrently by another thread is lost: " + e.what());
      }
    }
    barrier.wait();
    try {
      // after the barrier: everything registered by the *other* threads is visible and callable
      const int other = (tid + 1) % T;
      for (int j = 0; j < nops; ++j) {
        const Op &op = plans[static_cast<size_t>(other)][static_cast<size_t>(j)];
        const std::string id = "t" + std::to_string(other) + "_" + std::to_string(j);
        Inside in;
        if (op.kind == 3 && chai.eval<int>("f_" + id + "(1)") != 1 + op.a) fail(tid, "function f_" + id + " registered by another thread is lost or wrong");
        if (op.kind == 4 && chai.eval<int>("g_" + id) != op.a) fail(tid, "global g_" + id + " of another thread lost");
        if (op.kind == 5 && chai.eval<int>("K_" + id + "().get()") != op.a) fail(tid, "class K_" + id + " of another thread lost");
        if (op.kind == 6 && chai.eval<int>("cf_" + id + "(3)") != 3 * op.a) fail(tid, "C++ function cf_" + id + " of another thread lost");
        if (op.kind == 7 && chai.eval<int>("cg_" + id) != op.a + 1000) fail(tid, "global cg_" + id + " of another thread lost");
      }
    } catch (const chaiscript::exception::eval_error &e) {
      fail(tid, std::string("eval_error: ") + e.pretty_print());
    } catch (const std::exception &e) {
      fail(tid, std::string("exception: ") + e.what());
    }
  };
  std::vector<std::thread> threads;
  for (int t = 0; t < T; ++t) threads.emplace_back(body, t);
  for (auto &th : threads) th.join();
  ops_done += ops.load();
  bool used_any = false;
  for (int t = 0; t < T; ++t) for (const auto &op : plans[static_cast<size_t>(t)]) used_any |= (op.kind == 9);
  if (failure.empty() && used_any && g_use_count.load() != 1) failure = "the used file was evaluated " + std::to_string(g_use_count.load()) + " times";
  unlink(path);
  return failure;
}

int main(int argc, char **argv) {
  if (argc < 5) { std::fprintf(stderr, "usage: stress <seed> <first> <n> <reps>\n"); return 2; }
  const unsigned seed = static_cast<unsigned>(std::strtoul(argv[1], nullptr, 10));
  const int first = std::atoi(argv[2]), n = std::atoi(argv[3]), reps = std::atoi(argv[4]);
  long ops = 0, runs = 0, overlapped = 0;
  int fails = 0;
  std::string sample, first_sample;
  for (int w = first; w < first + n; ++w) {
    for (int r = 0; r < reps; ++r) {
      g_max_inside = 0;
      const std::string f = run_workload(seed, w, r, ops, sample);
      if (first_sample.empty()) first_sample = sample;
      ++runs;
      if (g_max_inside.load() >= 2) ++overlapped;
      if (!f.empty()) { std::printf("FAIL workload=%d rep=%d :: %s\n", w, r, f.c_str()); ++fails; }
      std::fflush(stdout);
    }
  }
  std::printf("STATS {\"runs\":%ld,\"overlapped_runs\":%ld,\"operations\":%ld,\"fails\":%d,\"sample\":\"%s\"}\n", runs, overlapped, ops, fails, first_sample.c_str());
  return fails ? 1 : 0;
}
