"""C08 - evaluating code does not change the code: re-evaluation is deterministic.

(1) functions whose bodies build values from literals and mutate the local results by every route are called k>=3 times,
interleaved with other functions: call_i must equal call_1 (value rendering, output, rec log, error class).
(2) a tree parsed once is evaluated n times through eval(AST_Node): equal results, and an identical deep dump of the
tree (structure + the value of every Constant node) before and after.
"""
from hypothesis import strategies as st

import hyp
import vlib
from hyp import Violation

PID = "C08"
RULE = ("generated function bodies: declarations (var / auto / var := / var & / parameter receiving a literal) initialised from literals (ints, floats, "
        "strings, interpolated strings, chars, bools, folded constant expressions, inline vectors/maps/ranges, nested vectors), followed by mutations "
        "of the local results (+=, =, ++, push_back, []=, element +=, ranged-for element update, mutating helper, mutation of a returned literal); each "
        "function called 3..6 times interleaved with others; and the same bodies as a block parsed once and evaluated 3..5 times via eval(AST_Node). "
        "Oracle: call_i == call_1; deep tree dump unchanged. non-trivial = the body has >=1 literal whose value flows into a mutating operation; "
        "distinct = distinct program texts")

LITS = {
    "int": ["1", "7", "-5", "(1 + 2)", "0x10", "3u", "5l", "(2 * 3 - 1)", "-(4)", "~1"],
    "flt": ["1.5", "2.0f", "-0.5", "(1.5 + 1.0)"],
    "str": ["\"ab\"", "\"\"", "\"x${1}y\"", "\"a\" + \"b\"", "\"q\\n\""],
    "bool": ["true", "false", "!false", "!true", "(true && false)", "(false || true)", "(1 < 2)"],
    "chr": ["'a'", "'\\n'"],
    "vec": ["[1, 2, 3]", "[]", "[[1], [2, 3]]", "[1..4]", "[\"s\", \"t\"]", "[1, \"two\", 3.0]", "[true, !true]"],
    "map": ["[\"a\": 1, \"b\": 2]", "[\"k\": [1, 2]]"],
}
DECLS = ["var N = L", "auto N = L", "var N := L", "var &N = L", "var N = L", "var N = L"]

MUTS = {
    "int": ["N += 1", "N = N + 1", "++N", "N *= 3", "--N", "bump(N)", "N -= 2"],
    "flt": ["N += 0.5", "N = N * 2.0", "bump(N)"],
    "str": ["N += \"!\"", "N = N + \"?\"", "N.push_back('z')", "grow(N)", "N[0] = 'Q'"],
    "bool": ["N = !N", "N = true", "N = false"],
    "chr": ["N = 'z'", "++N"],
    "vec": ["N.push_back(9)", "N[0] = 7", "N[0] += 10", "for (e : N) { e += 100 }", "grow(N)", "N.pop_back()", "N.clear()", "N[1][0] = 5", "N = [0]", "N.insert_at(0, 4)", "N[0] = \"w\"", "N[0] = true"],
    "map": ["N[\"a\"] = 99", "N[\"z\"] = 1", "N[\"a\"] += 1", "N[\"k\"].push_back(3)", "N.erase(\"a\")"],
}


@st.composite
def body(draw):
    n = draw(st.integers(1, 5))
    stmts = []
    names = []
    for j in range(n):
        t = draw(st.sampled_from(["int", "int", "flt", "str", "str", "bool", "bool", "chr", "vec", "vec", "vec", "map"]))
        name = "x%d" % j
        decl = draw(st.sampled_from(DECLS))
        lit = draw(st.sampled_from(LITS[t]))
        stmts.append({"k": "decl", "name": name, "form": decl, "lit": lit, "t": t})
        names.append((name, t))
        for _ in range(draw(st.integers(0, 3))):
            tn, tt = draw(st.sampled_from(names))
            stmts.append({"k": "mut", "name": tn, "code": draw(st.sampled_from(MUTS[tt])), "guard": draw(st.booleans())})
        if draw(st.integers(0, 5)) == 0:
            stmts.append({"k": "retlit", "lit": draw(st.sampled_from(LITS["vec"] + LITS["str"]))})
        if draw(st.integers(0, 6)) == 0:
            stmts.append({"k": "paramlit", "lit": draw(st.sampled_from(LITS["vec"] + LITS["int"] + LITS["str"] + LITS["bool"])), "t": "x"})
    return {"stmts": stmts, "names": [nm for nm, _ in names]}


MAKER_ARGS = [("\"ab\" + \"c\"", "str"), ("\"lit\"", "str"), ("[1, 2]", "vec"), ("lit_vec([3])", "vec"), ("1 + 2", "int"), ("7", "int"), ("to_string(5)", "str"),
              ("[1, 2].size() + 1", "int"), ("!false", "bool"), ("1.5 * 2.0", "flt")]


@st.composite
def maker(draw):
    arg, t = draw(st.sampled_from(MAKER_ARGS))
    # a copy of a Vector/Map shares its element handles with the original (documented one-level copy): only structural
    # mutations of the copy are required to leave the captured value alone
    muts = [m for m in MUTS[t] if not (t in ("vec", "map") and ("[0]" in m or "[1]" in m or "e +=" in m or "[\"a\"]" in m or "[\"k\"]" in m))]
    return {"arg": arg, "t": t, "decl": draw(st.sampled_from(["var y = x", "auto y = x", "var y := x", "var &y = x"])), "mut": draw(st.sampled_from(muts)),
            "direct": draw(st.booleans()), "calls": draw(st.integers(3, 5)), "wrap": draw(st.sampled_from([None, None, "vec", "map", "map2"]))}


@st.composite
def cases(draw):
    if draw(st.integers(0, 4)) == 0:
        return {"makers": draw(st.lists(maker(), min_size=1, max_size=3))}
    fns = draw(st.lists(body(), min_size=1, max_size=3))
    calls = []
    for i in range(len(fns)):
        calls += [i] * draw(st.integers(3, 6))
    calls = draw(st.permutations(calls))
    return {"fns": fns, "calls": list(calls), "reeval_n": draw(st.integers(3, 5)), "arg": draw(st.integers(0, 3))}


def strategy():
    return cases()


HELPERS = """def bump(a) { a += 1 }
def grow(a) { a.push_back('g') }
def grow(Vector a) { a.push_back(8) }
def lit_vec(l) { return l }
def take_and_mutate(p) { try { p += 1 } catch(e) { }; try { p.push_back(2) } catch(e) { }; try { p = !p } catch(e) { }; p }
"""


def body_text(b, ind="  "):
    lines = []
    uid = [0]
    for s in b["stmts"]:
        if s["k"] == "decl":
            lines.append(ind + "try { " + s["form"].replace("N", s["name"]).replace("L", s["lit"]) + " } catch(e) { rec(\"decl-failed\"); var " + s["name"] + " = 0 }"
                         if False else ind + s["form"].replace("N", s["name"]).replace("L", s["lit"]))
        elif s["k"] == "mut":
            code = s["code"].replace("N", s["name"])
            lines.append(ind + ("try { %s } catch(e) { rec(\"E\") }" % code))
        elif s["k"] == "retlit":
            uid[0] += 1
            lines.append(ind + "var r%d = lit_vec(%s); try { r%d.push_back('m') } catch(e) { rec(\"E\") }; try { r%d += \"m\" } catch(e) { rec(\"E\") }; rec(r%d)" % (uid[0], s["lit"], uid[0], uid[0], uid[0]))
        else:
            lines.append(ind + "rec(take_and_mutate(%s))" % s["lit"])
    lines.append(ind + "[" + ", ".join(b["names"]) + "]")
    return "\n".join(lines)


def build_calls(c):
    out = HELPERS
    for i, b in enumerate(c["fns"]):
        out += "def fn%d(p) {\n%s\n}\n" % (i, body_text(b))
    return out


def flows(b):
    declared = set(s["name"] for s in b["stmts"] if s["k"] == "decl")
    return any(s["k"] in ("retlit", "paramlit") or (s["k"] == "mut" and s["name"] in declared) for s in b["stmts"])


def obs(r):
    o = {"out": r.get("out", ""), "rec": r.get("rec", [])}
    if "exc" in r:
        o["exc"] = r["exc"]["kind"]
        o["why"] = r["exc"].get("reason") or r["exc"].get("r")
    else:
        o["res"] = r["res"]["r"]
    return o


def check_makers(c, ctx):
    """closures created by a maker function from a temporary argument, then called repeatedly"""
    text = HELPERS
    for i, m in enumerate(c["makers"]):
        mut = m["mut"].replace("N", "x" if m["direct"] else "y")
        inner = ("try { %s } catch(e) { rec(\"E\") }; x" % mut) if m["direct"] else ("%s; try { %s } catch(e) { rec(\"E\") }; y" % (m["decl"], mut))
        if m.get("wrap"):
            # the captured value is put into an inline Vector / Map (which copies it) and the *element* is changed in place
            elem = {"vec": "y[0]", "map": "y[\"k\"]", "map2": "y[\"k\"]"}[m["wrap"]]
            lit = {"vec": "[x]", "map": "[\"k\": x]", "map2": "[\"a\": 1, \"k\": x]"}[m["wrap"]]
            emut = {"str": "E += \"!\"", "int": "E += 1", "flt": "E += 0.5", "bool": "E = !E", "vec": "E.push_back(9)"}[m["t"]].replace("E", elem)
            inner = "var y = %s; try { %s } catch(e) { rec(\"E\") }; [%s, x]" % (lit, emut, elem)
        text += "def mk%d(x) { return fun[x]() { %s } }\nvar c%d = mk%d(%s)\n" % (i, inner, i, i, m["arg"])
    eid = ctx.request({"cmd": "new", "opt": True})["id"]
    try:
        r = ctx.request({"cmd": "eval", "id": eid, "script": text})
        if "exc" in r:
            raise hyp.Inconclusive("definitions rejected")
        ctx.nontrivial(text)
        ctx.classify("family", "closure_makers")
        for i, m in enumerate(c["makers"]):
            if not m.get("wrap") and (m["direct"] or m["decl"].startswith(("var y :=", "var &y"))):
                continue          # the closure deliberately mutates its own captured state: successive calls differ by design
            firsto = None
            seen = 0
            for k in range(m["calls"]):
                rr = ctx.request({"cmd": "eval", "id": eid, "script": "c%d()" % i})
                o = obs(rr)
                o["rec"] = o["rec"][seen:]
                seen = len(rr["rec"])
                if firsto is None:
                    firsto = o
                elif o != firsto:
                    raise Violation("call #%d of a closure that copies its captured value (`%s`) differs from call #0: %s vs %s" % (
                        k, m["decl"] if not m.get("wrap") else "inline container " + m["wrap"], o.get("res") or o.get("exc"), firsto.get("res") or firsto.get("exc")), {"program": text + "c%d()" % i})
    finally:
        try:
            ctx.request({"cmd": "del", "id": eid})
        except (Violation, hyp.Inconclusive):
            pass


def check(c, ctx):
    if "makers" in c:
        return check_makers(c, ctx)
    text = build_calls(c)
    eid = ctx.request({"cmd": "new", "opt": True})["id"]
    try:
        r = ctx.request({"cmd": "eval", "id": eid, "script": text})
        if "exc" in r:
            raise hyp.Inconclusive("definitions rejected: %s" % (r["exc"].get("reason")))
        first = {}
        trace = []
        prev_rec = 0
        for k, i in enumerate(c["calls"]):
            call = "fn%d(%d)" % (i, c["arg"])
            r = ctx.request({"cmd": "eval", "id": eid, "script": call})
            o = obs(r)
            o["rec"] = o["rec"][prev_rec:]
            prev_rec = len(r["rec"])
            trace.append((call, o.get("res") or o.get("exc")))
            if i not in first:
                first[i] = (k, o)
            elif o != first[i][1]:
                diff = [x for x in sorted(set(o) | set(first[i][1])) if o.get(x) != first[i][1].get(x)]
                raise Violation("call #%d of fn%d differs from its first call (#%d) on %s: now %s, first %s" % (
                    k, i, first[i][0], diff, {x: o.get(x) for x in diff}, {x: first[i][1].get(x) for x in diff}), {"program": text, "calls": trace})
        if any(flows(b) for b in c["fns"]):
            ctx.nontrivial(text)
        ctx.sample({"program": text, "calls": c["calls"]}, limit=1)
        # (2) parse once, evaluate n times
        for i, b in enumerate(c["fns"]):
            blk = "{\n" + body_text(b) + "\n}"
            rr = ctx.request({"cmd": "reeval", "id": eid, "script": blk, "n": c["reeval_n"]})
            if "parse_error" in rr:
                continue
            ctx.count("reevaluated_trees")
            o0 = obs(rr["results"][0])
            for k, one in enumerate(rr["results"][1:], 1):
                ok = obs(one)
                if ok != o0:
                    diff = [x for x in sorted(set(ok) | set(o0)) if ok.get(x) != o0.get(x)]
                    raise Violation("evaluation #%d of a parsed tree differs from evaluation #0 on %s: %s vs %s" % (
                        k, diff, {x: ok.get(x) for x in diff}, {x: o0.get(x) for x in diff}), {"program": blk})
            if rr["dump_before"] != rr["dump_after"]:
                import difflib
                d = "\n".join(list(difflib.unified_diff(rr["dump_before"].split("\n"), rr["dump_after"].split("\n"), lineterm="", n=0))[:12])
                raise Violation("evaluating a parsed tree changed it: " + d.replace("\n", " | "), {"program": blk})
    finally:
        try:
            ctx.request({"cmd": "del", "id": eid})
        except (Violation, hyp.Inconclusive):
            pass


def root_cause(f):
    w = f["what"]
    if "closure" in w:
        return "closure"
    return "tree-changed" if "changed it" in w else "reeval" if "parsed tree differs" in w else "crash" if "died" in w else "calls"


def main(tier):
    vlib.ensure_built("runner")
    ev = vlib.Evidence(PID, tier)
    ev.cov["rule"] = RULE
    ev.assumptions = ["function bodies are closed over their parameter and the helper functions; every mutation is wrapped in try/catch so that a rejected mutation "
                      "(const violation) does not end the body", "the deep dump renders every Constant node's value through the runner's type-aware renderer"]
    n = 3000 if tier == "quick" else 30000
    failures = hyp.run("c08", ev, tier, n)
    confirmed = hyp.confirm("c08", failures, PID)
    for p, what in confirmed:
        vlib.violation(PID, p, what)
    vlib.finish(ev, len(confirmed))


def replay(path):
    vlib.ensure_built("runner")
    return hyp.replay("c08", path)
