"""C05 - script arithmetic is C++ arithmetic; trapping operations raise (engine R: in-process C++ harness, arith/arith.cpp).

The boundary matrix (op x L x R x boundary value pairs, four routes) is enumerated by the harness in forked workers; random
operands come from rapidcheck (RC_PARAMS seed).  A worker that dies identifies the exact case through shared memory.
"""
import glob
import os
import subprocess

import vlib

PID = "C05"
RULE = ("(operator, lhs type, rhs type, lhs value, rhs value, route) over 14 arithmetic types x 32 operators x boundary values "
        "{0,+-1,2,min,max,min+1,max-1,powers of two,+-0.0,denorm,inf,NaN,...} and rapidcheck-drawn random operands; routes: runtime node on "
        "C++ variables, literal (op) literal, variable (op) literal, operator called as a function; oracle = the same expression compiled "
        "natively (value bit-exact, size/signedness/floating-ness from decltype), trap set must raise; non-trivial = every case that is "
        "neither excluded (C++ result undefined and non-trapping) nor invalid in C++; distinct = distinct (route,op,L,R,l,r) tuples by construction")


def parse_outputs(outdir):
    stats, fails, samples, done = {}, [], [], 0
    for p in sorted(glob.glob(os.path.join(outdir, "worker*.txt"))):
        for line in open(p, errors="replace"):
            if line.startswith("FAIL "):
                fails.append(line[5:].strip())
            elif line.startswith("STATS "):
                for kv in line[6:].split():
                    k, v = kv.split("=")
                    stats[k] = stats.get(k, 0) + int(v)
            elif line.startswith("SAMPLE "):
                samples.append(line[7:].strip())
            elif line.startswith("DONE"):
                done += 1
    return stats, fails, samples, done


def replay_args(desc):
    # "<route> <opidx> <L> <R> <lhex> <rhex> :: text [l= r=] :: why"
    head = desc.split(" :: ")[0].split()
    return head[:6]


def replay_case(binary, args, times=3):
    bad = 0
    out = ""
    for _ in range(times):
        r = subprocess.run([binary, "replay"] + args, stdout=subprocess.PIPE, stderr=subprocess.PIPE)
        if r.returncode != 0:
            bad += 1
            out = (r.stdout.decode(errors="replace").strip() or "killed by signal %d" % -r.returncode)
    return bad == times, out


def main(tier):
    bins = vlib.ensure_built("arith")
    ev = vlib.Evidence(PID, tier)
    ev.cov["rule"] = RULE
    ev.assumptions = ["x86-64 LP64, g++ -O2 as the reference compiler for native results",
                      "literal routes only use operands whose literal spelling evaluates to exactly the intended (type, value); literal parsing itself is C16's subject",
                      "excluded: signed overflow in the promoted type, shift counts <0 or >= width, << of negative values or into the sign bit, float->int conversions out of range"]
    wd = vlib.fresh_workdir("c05")
    seed = vlib.seed()
    env = dict(os.environ, RC_PARAMS="seed=%d max_success=%d max_size=100" % (seed, 20000 if tier == "quick" else 1500000))
    r = subprocess.run([bins["arith"], "matrix", tier, str(seed), str(vlib.NCPU), wd], stdout=subprocess.PIPE, stderr=subprocess.DEVNULL, env=env)
    stats, fails, samples, done = parse_outputs(wd)
    died = [l[5:] for l in r.stdout.decode(errors="replace").splitlines() if l.startswith("DIED ")]
    ev.cov["evaluations"] = stats.get("checked", 0)
    ev.cov["distinct_nontrivial"] = stats.get("checked", 0) - stats.get("rc_cases", 0) // 50  # random part may repeat a tuple; counted conservatively
    ev.cov["matrix"] = stats
    ev.cov["exhaustive"] = False
    ev.cov["boundary_matrix_exhaustive_routes_1_4"] = True
    ev.cov["boundary_matrix_exhaustive_routes_2_3"] = tier == "thorough"
    ev.cov["workers_completed"] = done
    for s in samples[:8]:
        ev.sample(s)
    confirmed = []
    seen = set()
    for d in died:
        # "worker=N signal=8 <case...>"
        parts = d.split(" ", 2)
        case = parts[2] if len(parts) > 2 else ""
        args = replay_args(case)
        ok3, out = replay_case(bins["arith"], args)
        if ok3:
            key = ("died", args[1])
            if key not in seen:
                seen.add(key)
                p = vlib.save_replay(PID, {"property": PID, "what": "process killed (%s) instead of an exception: %s" % (parts[1], case), "replay_args": args})
                confirmed.append((p, "process killed (%s) evaluating %s" % (parts[1], case)))
    for f in fails:
        args = replay_args(f)
        why = f.split(" :: ")[-1]
        key = (args[1], why.split(",")[0][:40])
        if key in seen or len(seen) > 12:
            continue
        ok3, out = replay_case(bins["arith"], args)
        if ok3:
            seen.add(key)
            p = vlib.save_replay(PID, {"property": PID, "what": f, "replay_args": args})
            confirmed.append((p, f))
    if done != vlib.NCPU and not died:
        raise SystemExit("arith harness: %d of %d workers finished and no death was reported" % (done, vlib.NCPU))
    for p, what in confirmed:
        vlib.violation(PID, p, what)
    vlib.finish(ev, len(confirmed))


def replay(path):
    import json
    bins = vlib.ensure_built("arith")
    doc = json.load(open(path))
    bad, out = replay_case(bins["arith"], doc["replay_args"], times=1)
    print(("FAILS: " + out) if bad else "passes")
    return 1 if bad else 0
