"""C12 - built-in containers/strings are bounds-safe and match their std:: models.

Operation sequences on one persistent engine (Vector, Map, string, Pair, range views), compared step by step with a Python
list/dict/str model; every precondition violation must raise and leave the container equal to the model; ASan stays silent.
"""
from hypothesis import strategies as st

import os

import hyp
import vlib
from hyp import Violation

PID = "C12"
RULE = ("sequences (<=30 steps) of bound operations on a Vector, a Map, a string, a Pair and range views over them, index/position arguments drawn "
        "from {-huge,-1,0,size-1,size,size+1,INT_MAX,2^32-1, 2^32, 2^32+size-1, 2^40+1, -2^32+1} and random; oracle = Python list/dict/str model of the std:: semantics checked after "
        "every step (result or 'raised', then a full scan of the container); range views are dropped when their container is structurally "
        "modified. non-trivial = sequence containing >=1 boundary index/position or an operation on an empty container; distinct = distinct sequences")

NPOS = 18446744073709551615
IDX = ["neghuge", "neg1", "zero", "last", "size", "size1", "intmax", "huge", "rnd0", "rnd1", "rnd2", "rnd3",
       "wrap0", "wraplast", "wrap40", "negwrap"]        # 64-bit values whose low 32 bits look like a valid position


def resolve(ix, size):
    return {"neghuge": -2147483648, "neg1": -1, "zero": 0, "last": size - 1, "size": size, "size1": size + 1, "intmax": 2147483647,
            "huge": 4294967295, "rnd0": 0, "rnd1": 1, "rnd2": 2, "rnd3": 3,
            "wrap0": 2 ** 32, "wraplast": 2 ** 32 + max(size - 1, 0), "wrap40": 2 ** 40 + 1, "negwrap": -(2 ** 32) + 1}[ix]


def boundary(ix, size):
    return ix in ("neghuge", "neg1", "size", "size1", "intmax", "huge", "last", "wrap0", "wraplast", "wrap40", "negwrap") or (ix == "zero" and size == 0)


def lit_int(x):
    return str(x) if x >= 0 else "(%d)" % x


def q(s):
    o = '"'
    for c in s.encode("latin-1"):
        if c in (0x22, 0x5c):
            o += "\\" + chr(c)
        elif c < 0x20 or c >= 0x7f:
            o += "\\u%04x" % c
        else:
            o += chr(c)
    return o + '"'


def r_elem(x):
    return "undef" if x is None else "i32:%d" % x


def r_vec(v):
    return "[" + ", ".join(r_elem(x) for x in v) + "]"


def r_map(m):
    return "{" + ", ".join("%s: %s" % (q(k), r_elem(m[k])) for k in sorted(m)) + "}"


def r_char(c):
    o = ord(c)
    return "char:%d" % (o if o < 128 else o - 256)


VEC_OPS = ["v_get", "v_set", "v_front", "v_back", "v_push", "v_pop", "v_insert", "v_erase", "v_resize", "v_resize2", "v_resize_set", "v_resize_huge", "v_reserve", "v_clear",
           "v_size", "v_empty", "v_assign", "v_copy_mut", "v_cap"]
MAP_OPS = ["m_get", "m_at", "m_set", "m_count", "m_erase", "m_size", "m_clear", "m_insert", "m_empty"]
STR_OPS = ["s_get", "s_size", "s_clear", "s_append", "s_append_c", "s_push", "s_substr", "s_find", "s_insert", "s_erase", "s_empty", "s_assign", "s_set"]
RNG_OPS = ["r_new", "r_new_s", "r_new_retro", "r_front", "r_back", "r_pop_front", "r_pop_back", "r_empty", "r_new_m", "r_tmp"]
PAIR_OPS = ["p_new", "p_first", "p_second"]
CONST_OPS = ["cv_get", "cs_get", "lit_get", "cv_front", "cs_substr", "cv_range"]

step = st.fixed_dictionaries({
    "op": st.sampled_from(VEC_OPS * 3 + MAP_OPS * 2 + STR_OPS * 2 + RNG_OPS * 3 + PAIR_OPS + CONST_OPS * 2),
    "ix": st.sampled_from(IDX),
    "ix2": st.sampled_from(IDX),
    "x": st.integers(-9, 99),
    "k": st.sampled_from(["a", "b", "c", ""]),
    "t": st.sampled_from(["", "a", "ab", "b", "abc", "ba"]),
    "which": st.sampled_from(["find", "rfind", "find_first_of", "find_last_of", "find_first_not_of", "find_last_not_of"]),
})


def strategy():
    return st.fixed_dictionaries({
        "v0": st.lists(st.integers(-9, 9), max_size=4),
        "s0": st.sampled_from(["", "a", "abc", "abcab"]),
        "steps": st.lists(step, min_size=1, max_size=30),
    })


class Model:
    def __init__(self, v0, s0):
        self.v = list(v0)
        self.m = {}
        self.s = s0
        self.p = (1, 2)
        self.uid = 0
        self.rname = None
        self.pname = "p"
        self.r = None   # ("v"|"s"|"retro"|"m", lo, hi): view [lo,hi) of the container, valid until a structural modification

    def drop_views(self, what):
        if self.r is not None and (self.r[0] == what or (what == "v" and self.r[0] == "retro")):
            self.r = None


RAISE = "RAISE"


def str_find(s, sub, which, pos):
    n = len(s)
    if which == "find":
        return s.find(sub, pos) if pos <= n else -1
    if which == "rfind":
        # last occurrence starting at or before pos
        start = min(pos, n - len(sub)) if n >= len(sub) else -1
        for i in range(start, -1, -1):
            if s.startswith(sub, i):
                return i
        return -1
    if which == "find_first_of":
        return next((i for i in range(min(pos, n), n) if s[i] in sub), -1)
    if which == "find_first_not_of":
        return next((i for i in range(min(pos, n), n) if s[i] not in sub), -1)
    if which == "find_last_of":
        return next((i for i in range(min(pos, n - 1), -1, -1) if s[i] in sub), -1)
    return next((i for i in range(min(pos, n - 1), -1, -1) if s[i] not in sub), -1)


def plan(st_, M):
    """-> (script, expected) where expected is a rendering, RAISE, or None (= result not compared); mutates the model; or None to skip"""
    op, x, k, t = st_["op"], st_["x"], st_["k"], st_["t"]
    v, m, s = M.v, M.m, M.s
    n = len(v)
    i = resolve(st_["ix"], n)
    if op == "v_get":
        return "v[%s]" % lit_int(i), (r_elem(v[i]) if 0 <= i < n else RAISE)
    if op == "v_set":
        if 0 <= i < n:
            v[i] = x          # also into a slot that resize(n) created without a value: the slots are distinct objects, as in std::vector

            return "v[%s] = %s" % (lit_int(i), lit_int(x)), "i32:%d" % x
        return "v[%s] = %s" % (lit_int(i), lit_int(x)), RAISE
    if op == "v_front":
        return "v.front()", (r_elem(v[0]) if n else RAISE)
    if op == "v_back":
        return "v.back()", (r_elem(v[-1]) if n else RAISE)
    if op == "v_push":
        v.append(x)
        M.drop_views("v")
        return "v.push_back(%s)" % lit_int(x), None
    if op == "v_pop":
        if n:
            v.pop()
            M.drop_views("v")
            return "v.pop_back()", None
        return "v.pop_back()", RAISE
    if op == "v_insert":
        if 0 <= i <= n:
            v.insert(i, x)
            M.drop_views("v")
            return "v.insert_at(%s, %s)" % (lit_int(i), lit_int(x)), None
        return "v.insert_at(%s, %s)" % (lit_int(i), lit_int(x)), RAISE
    if op == "v_erase":
        if 0 <= i < n:
            del v[i]
            M.drop_views("v")
            return "v.erase_at(%s)" % lit_int(i), None
        return "v.erase_at(%s)" % lit_int(i), RAISE
    if op in ("v_resize", "v_resize2"):
        newn = max(0, min(n + 3, {"zero": 0, "last": n - 1, "size": n, "size1": n + 1}.get(st_["ix"], x % 7)))
        two = op == "v_resize2"
        if two and newn > n:
            # recorded known finding (resize(n, value) fills with handles to one shared, possibly const, object): growing with a fill value is
            # excluded from generation and counted; the finding itself is replayed on every run (main)
            return "EXCLUDED"
        M.v = v[:newn] + [x if two else None] * max(0, newn - n)
        M.drop_views("v")
        return ("v.resize(%d, %s)" % (newn, lit_int(x)) if two else "v.resize(%d)" % newn), None
    if op == "v_resize_set":
        # grow by two or three slots without a fill value, give ONE of the new slots a value: the others stay without one (distinct objects)
        grow = 2 + x % 2
        which = n + (x // 2) % grow
        M.v = v + [None] * grow
        M.v[which] = x
        M.drop_views("v")
        return "v.resize(%d); v[%d] = %s" % (n + grow, which, lit_int(x)), "i32:%d" % x
    if op == "v_resize_huge":
        return "v.resize(%s)" % ("-1" if x % 2 else "18446744073709551615ul"), RAISE
    if op == "v_reserve":
        M.drop_views("v")
        return "v.reserve(%d)" % (x % 20), None
    if op == "v_clear":
        M.v = []
        M.drop_views("v")
        return "v.clear()", None
    if op == "v_size":
        return "v.size()", "u64:%d" % n
    if op == "v_empty":
        return "v.empty()", "bool:true" if n == 0 else "bool:false"
    if op == "v_cap":
        return "v.capacity() >= v.size()", "bool:true"
    if op == "v_assign":
        M.v = [x, x + 1, -x][: (x % 4)]
        M.drop_views("v")
        return "v = [%s]" % ", ".join(lit_int(e) for e in M.v), None
    if op == "v_copy_mut":
        # a copy is independent in structure
        M.uid += 1
        return "var cpy%d = v; cpy%d.push_back(5); cpy%d.size()" % (M.uid, M.uid, M.uid), "u64:%d" % (n + 1)
    # ---- map
    if op == "m_get":
        if k not in m:
            m[k] = None
            M.drop_views("m")
        return "m[%s]" % q(k), r_elem(m[k])
    if op == "m_at":
        return "m.at(%s)" % q(k), (r_elem(m[k]) if k in m else RAISE)
    if op == "m_set":
        if k in m and m[k] is None:
            return None
        if k not in m:
            M.drop_views("m")
        m[k] = x
        return "m[%s] = %s" % (q(k), lit_int(x)), "i32:%d" % x
    if op == "m_count":
        return "m.count(%s)" % q(k), "u64:%d" % (1 if k in m else 0)
    if op == "m_erase":
        had = k in m
        m.pop(k, None)
        M.drop_views("m")
        return "m.erase(%s)" % q(k), "u64:%d" % (1 if had else 0)
    if op == "m_size":
        return "m.size()", "u64:%d" % len(m)
    if op == "m_empty":
        return "m.empty()", "bool:true" if not m else "bool:false"
    if op == "m_clear":
        m.clear()
        M.drop_views("m")
        return "m.clear()", None
    if op == "m_insert":
        # std::map::insert(range): existing keys keep their value
        other = {k: x, "zz": x + 1}
        for kk, vv in other.items():
            m.setdefault(kk, vv)
        M.drop_views("m")
        return "m.insert([%s:%s, \"zz\":%s])" % (q(k), lit_int(x), lit_int(x + 1)), None
    # ---- string
    ns = len(s)
    j = resolve(st_["ix"], ns)
    if op == "s_get":
        return "s[%s]" % lit_int(j), (r_char(s[j]) if 0 <= j < ns else RAISE)
    if op == "s_set":
        if 0 <= j < ns:
            M.s = s[:j] + "z" + s[j + 1:]
            return "s[%s] = 'z'" % lit_int(j), "char:122"
        return "s[%s] = 'z'" % lit_int(j), RAISE
    if op == "s_size":
        return "s.size()", "u64:%d" % ns
    if op == "s_empty":
        return "s.empty()", "bool:true" if ns == 0 else "bool:false"
    if op == "s_clear":
        M.s = ""
        M.drop_views("s")
        return "s.clear()", None
    if op == "s_append":
        if len(s) + len(t) > 60:
            return None
        M.s = s + t
        M.drop_views("s")
        return "s += %s" % q(t), "str:" + q(M.s)
    if op == "s_append_c":
        if len(s) > 60:
            return None
        M.s = s + "c"
        M.drop_views("s")
        return "s += 'c'", "str:" + q(M.s)
    if op == "s_push":
        if len(s) > 60:
            return None
        M.s = s + "p"
        M.drop_views("s")
        return "s.push_back('p')", None
    if op == "s_assign":
        M.s = t
        M.drop_views("s")
        return "s = %s" % q(t), "str:" + q(t)
    if op == "s_substr":
        ln = resolve(st_["ix2"], ns)
        pos_arg = j if j >= 0 else j + 2 ** 64
        len_arg = ln if ln >= 0 else ln + 2 ** 64
        exp = ("str:" + q(s[pos_arg:pos_arg + len_arg])) if pos_arg <= ns else RAISE
        return "s.substr(%s, %s)" % (lit_int(j), lit_int(ln)), exp
    if op == "s_find":
        pos_arg = j if j >= 0 else j + 2 ** 64
        p = str_find(s, t, st_["which"], pos_arg)
        return "s.%s(%s, %s)" % (st_["which"], q(t), lit_int(j)), "u64:%d" % (NPOS if p < 0 else p)
    if op == "s_insert":
        if 0 <= j <= ns:
            M.s = s[:j] + "i" + s[j:]
            M.drop_views("s")
            return "s.insert_at(%s, 'i')" % lit_int(j), None
        return "s.insert_at(%s, 'i')" % lit_int(j), RAISE
    if op == "s_erase":
        if 0 <= j < ns:
            M.s = s[:j] + s[j + 1:]
            M.drop_views("s")
            return "s.erase_at(%s)" % lit_int(j), None
        return "s.erase_at(%s)" % lit_int(j), RAISE
    # ---- const containers (published by the host with add_global_const, and string literals): the const overloads
    if op == "cv_get":
        ci = resolve(st_["ix"], 3)
        return "cvec_h[%s]" % lit_int(ci), ("i32:%d" % [10, 20, 30][ci] if 0 <= ci < 3 else RAISE)
    if op == "cs_get":
        ci = resolve(st_["ix"], 5)
        return "cstr_h[%s]" % lit_int(ci), (r_char("hello"[ci]) if 0 <= ci < 5 else RAISE)
    if op == "lit_get":
        ci = resolve(st_["ix"], 3)
        # used as a value: the element reference itself points into the literal, which does not outlive the evaluation
        return "\"abc\"[%s] + 0" % lit_int(ci), ("i32:%d" % ord("abc"[ci]) if 0 <= ci < 3 else RAISE)
    if op == "cv_front":
        return "[cvec_h.front(), cvec_h.back(), int(cvec_h.size())]", "[i32:10, i32:30, i32:3]"
    if op == "cs_substr":
        ci = resolve(st_["ix"], 5)
        pos_arg = ci if ci >= 0 else ci + 2 ** 64
        return "cstr_h.substr(%s, 2)" % lit_int(ci), (("str:" + q("hello"[pos_arg:pos_arg + 2])) if pos_arg <= 5 else RAISE)
    if op == "cv_range":
        return "var cr%d = range(cvec_h); cr%d.pop_front(); cr%d.front()" % (x, x, x) if False else "fun() { var cr = range(cvec_h); cr.pop_front(); cr.pop_back(); [cr.front(), cr.back()] }()", "[i32:20, i32:20]"
    # ---- pair
    if op == "p_new":
        M.p = (x, x + 1)
        M.uid += 1
        M.pname = "p%d" % M.uid
        return "var %s = Pair(%s, %s); 0" % (M.pname, lit_int(x), lit_int(x + 1)), "i32:0"
    if op == "p_first":
        return M.pname + ".first", "i32:%d" % M.p[0]
    if op == "p_second":
        return M.pname + ".second", "i32:%d" % M.p[1]
    if op == "p_set":
        M.p = (M.p[0], x)
        return "p.second = %s" % lit_int(x), "i32:%d" % x
    # ---- ranges
    if op == "r_new":
        M.r = ("v", 0, n)
        M.uid += 1
        M.rname = "r%d" % M.uid
        return "var %s = range(v); 0" % M.rname, "i32:0"
    if op == "r_new_retro":
        M.r = ("retro", 0, n)
        M.uid += 1
        M.rname = "r%d" % M.uid
        return "var %s = retro(range(v)); 0" % M.rname, "i32:0"
    if op == "r_new_s":
        M.r = ("s", 0, ns)
        M.uid += 1
        M.rname = "r%d" % M.uid
        return "var %s = range(s); 0" % M.rname, "i32:0"
    if op == "r_new_m":
        M.r = ("m", 0, len(m))
        M.uid += 1
        M.rname = "r%d" % M.uid
        return "var %s = range(m); 0" % M.rname, "i32:0"
    if op == "r_tmp":
        # a view over a *temporary* container keeps that container alive, and so does every copy of the view (after the first view is gone)
        a, b, c = lit_int(x), lit_int(x + 1), lit_int(x + 2)
        form = (x + len(st_["t"])) % 5
        if form == 0:
            return "fun() { var c2 = fun() { var r = range([%s, %s, %s]); var c = r; c }(); c2.pop_front(); [c2.front(), c2.back()] }()" % (a, b, c), "[i32:%d, i32:%d]" % (x + 1, x + 2)
        if form == 1:
            return "fun() { var c2 = retro(range([%s, %s, %s])); c2.pop_front(); [c2.front(), c2.back()] }()" % (a, b, c), "[i32:%d, i32:%d]" % (x + 1, x)
        if form == 2:
            return "fun() { var c2 = fun() { var r = range(\"ab\" + \"cd\"); var c = r; c }(); c2.pop_back(); [c2.front(), c2.back()] }()", "[char:97, char:99]"
        if form == 3:
            return "fun() { var keep = []; { var r = range([%s, %s, %s]); var c = r; keep.push_back(c) }; keep[0].pop_back(); [keep[0].front(), keep[0].back()] }()" % (a, b, c), "[i32:%d, i32:%d]" % (x, x + 1)
        return "fun() { var c2 = fun() { var r = range([\"a\": %s, \"b\": %s]); var c = r; c }(); c2.pop_front(); c2.front().second }()" % (a, b), "i32:%d" % (x + 1)
    if op.startswith("r_"):
        if M.r is None:
            return None
        kind, lo, hi = M.r
        empty = lo >= hi

        def elem(idx):
            if kind in ("v", "retro"):
                return r_elem(v[idx])
            if kind == "s":
                return r_char(s[idx])
            key = sorted(m)[idx]
            return "<%s, %s>" % (q(key), r_elem(m[key]))
        front_i, back_i = (lo, hi - 1) if kind != "retro" else (hi - 1, lo)
        if op == "r_empty":
            return M.rname + ".empty()", "bool:true" if empty else "bool:false"
        if op == "r_front":
            return M.rname + ".front()", (RAISE if empty else elem(front_i))
        if op == "r_back":
            return M.rname + ".back()", (RAISE if empty else elem(back_i))
        if op == "r_pop_front":
            if empty:
                return M.rname + ".pop_front()", RAISE
            M.r = (kind, lo + 1, hi) if kind != "retro" else (kind, lo, hi - 1)
            return M.rname + ".pop_front()", None
        if op == "r_pop_back":
            if empty:
                return M.rname + ".pop_back()", RAISE
            M.r = (kind, lo, hi - 1) if kind != "retro" else (kind, lo + 1, hi)
            return M.rname + ".pop_back()", None
    raise AssertionError(op)


def check(c, ctx):
    M = Model(c["v0"], c["s0"])
    eid = ctx.request({"cmd": "new", "opt": True})["id"]
    try:
        init = "var v = [%s]; var m = Map(); var s = %s; var p = Pair(1, 2); 0" % (", ".join(lit_int(e) for e in M.v), q(M.s))
        res = ctx.request({"cmd": "eval", "id": eid, "script": init})
        if "exc" in res:
            raise Violation("initialisation failed: %s" % res["exc"], {})
        nontrivial = False
        trace = []
        for k, st_ in enumerate(c["steps"]):
            sizes = {"v": len(M.v), "s": len(M.s)}
            pl = plan(st_, M)
            if pl == "EXCLUDED":
                ctx.classify("excluded_known_finding", "resize(n, value) growing the Vector")
                continue
            if pl is None:
                continue
            script, exp = pl
            opn = st_["op"]
            size = sizes["s"] if opn.startswith("s_") else sizes["v"]
            bnd = boundary(st_["ix"], size) and opn in ("v_get", "v_set", "v_insert", "v_erase", "s_get", "s_set", "s_substr", "s_find", "s_insert", "s_erase", "cv_get", "cs_get", "lit_get", "cs_substr")
            if bnd or exp == RAISE or (size == 0 and opn in ("v_front", "v_back", "v_pop", "r_front", "r_back", "r_pop_front", "r_pop_back")):
                nontrivial = True
            ctx.classify("ops", opn + ("/boundary" if bnd or exp == RAISE else ""))
            trace.append(script)
            res = ctx.request({"cmd": "eval", "id": eid, "script": script})
            ctx.count("steps")
            got = RAISE if "exc" in res else res["res"]["r"]
            if exp == RAISE and got != RAISE:
                raise Violation("step %d `%s`: precondition violated but no exception was raised (returned %s)" % (k, script, got), {"trace": trace})
            if exp != RAISE and got == RAISE:
                raise Violation("step %d `%s`: raised %s (%s), model expects %s" % (k, script, res["exc"].get("kind"), res["exc"].get("what") or res["exc"].get("reason"), exp or "success"), {"trace": trace})
            if exp not in (None, RAISE) and got != exp:
                raise Violation("step %d `%s`: returned %s, std:: model says %s" % (k, script, got, exp), {"trace": trace})
            scan = ctx.request({"cmd": "eval", "id": eid, "script": "[v, m, s, [%s.first, %s.second]]" % (M.pname, M.pname)})
            want = "[" + ", ".join([r_vec(M.v), r_map(M.m), "str:" + q(M.s), "[i32:%d, i32:%d]" % M.p]) + "]"
            if "exc" in scan or scan["res"]["r"] != want:
                raise Violation("after step %d `%s` the containers are %s, model says %s" % (k, script, scan.get("res", {}).get("r") or scan.get("exc"), want), {"trace": trace})
        if nontrivial:
            ctx.nontrivial(tuple(trace))
        ctx.sample({"v0": c["v0"], "s0": c["s0"], "steps": trace[:12]}, limit=2)
    finally:
        try:
            ctx.request({"cmd": "del", "id": eid})
        except (Violation, hyp.Inconclusive):
            pass


def root_cause(f):
    w = f["what"]
    if "runner process died" in w:
        return "crash"
    import re
    mt = re.search(r"`([a-z]+)\.?([a-z_]*)", w)
    return (mt.group(0) if mt else w[:40]) + ("/noraise" if "no exception" in w else "")


def main(tier):
    vlib.ensure_built("runner")
    ev = vlib.Evidence(PID, tier)
    ev.cov["rule"] = RULE
    ev.assumptions = ["Python list/dict/str models of std::vector<Boxed_Value>, std::map<std::string,Boxed_Value>, std::string written from the C++ standard's "
                      "container semantics; resize(n) default-constructs undefined values; map operator[] inserts an undefined value",
                      "range views are used only while their container is not structurally modified (modification during iteration is outside the property)",
                      "growing a Vector with resize(n, value) is a recorded known finding (all new elements and the argument are one object) and is excluded from generation"]
    # recorded known finding, replayed on every run
    for k in vlib.known_findings(PID):
        if k["kind"] == "known" and k.get("sig") == "resize-fill-shares-one-object":
            ctx = hyp.Ctx(0, tier)
            eid = ctx.request({"cmd": "new", "opt": True})["id"]
            r = ctx.request({"cmd": "eval", "id": eid, "script": open(os.path.join(vlib.VERIF, k["repro"])).read()})
            ctx.close()
            if "exc" not in r and "bool:true" in r["res"]["r"]:
                vlib.print_known(PID, k["what"])
            ev.count("known_findings_replayed")
    n = 640 if tier == "quick" else 12000
    failures = hyp.run("c12", ev, tier, n)
    confirmed = hyp.confirm("c12", failures, PID)
    for p, what in confirmed:
        vlib.violation(PID, p, what)
    vlib.finish(ev, len(confirmed))


def replay(path):
    vlib.ensure_built("runner")
    return hyp.replay("c12", path)
