"""C02 - the AST optimizer never changes what a program does.

Same program text, two fresh engines in one runner: default optimizer pipeline vs a pass that returns its input.
Programs = the shared grammar-directed generator (props/progs.py) + statement templates aimed at every rewrite's
trigger and its near misses.  Oracle: equal stdout, result type/rendering, exception class + reason / thrown value,
rec() log, final state of two C++ objects registered by reference.
"""
import json

from hypothesis import strategies as st

import hyp
import progs
import refchai
import vlib
from hyp import Violation

PID = "C02"
RULE = ("well-formed closed programs from the grammar-directed generator plus optimizer-targeted templates (constant expressions over all literal "
        "types incl. fold-time errors; x (op) constant; constant if/ternary conditions and if-init; blocks with/without declarations; dead statements; "
        "return forms; for(var i=C;i<C;++i) exactly and near misses with break/continue/assign/shadow/return/closure capture of the counter; "
        "var x = e incl. redeclaration; && / || with a constant on one side and an operand of any type on the other; a for loop re-entered (recursion from its body, closures of an earlier entry called during a later one); unused call results; int()/double()/... of constants). Oracle = differential: default optimizer vs "
        "optimization disabled. non-trivial = the two parse trees differ (>=1 rewrite fired); distinct = distinct program texts")

INT_LITS = ["0", "1", "2", "3", "7", "10", "255", "1000", "2147483647", "3u", "7u", "4294967295u", "5l", "9ul", "3ll", "8ull", "0x10", "0b101", "017"]
FLT_LITS = ["0.5", "1.5", "2.0", "3.25f", "1e3", "2.5l", "0.0", "1e-3"]
BIN_OPS = ["+", "-", "*", "/", "%", "&", "|", "^", "<<", ">>", "==", "!=", "<", "<=", ">", ">="]


class T:
    """template builder over a Hypothesis draw"""
    def __init__(self, draw):
        self.draw = draw
        self.n = 0

    def i(self, lo, hi):
        return self.draw(st.integers(lo, hi))

    def pick(self, seq):
        return seq[self.i(0, len(seq) - 1)]

    def name(self, p="t"):
        self.n += 1
        return "%s%d_" % (p, self.n)

    def const_expr(self, d=2):
        k = self.i(0, 9)
        if d <= 0 or k <= 2:
            return self.pick(INT_LITS + INT_LITS + FLT_LITS + ["true", "false", "'a'", "'\\n'"])
        if k <= 6:
            return "(%s %s %s)" % (self.const_expr(d - 1), self.pick(BIN_OPS), self.const_expr(d - 1))
        if k == 7:
            return "%s%s" % (self.pick(["-", "!", "~", "+"]), self.const_expr(d - 1))
        if k == 8:
            return "(%s ? %s : %s)" % (self.pick(["true", "false", "1 < 2", "3 == 4"]), self.const_expr(d - 1), self.const_expr(d - 1))
        return "%s(%s)" % (self.pick(["int", "double", "float", "long", "size_t", "to_string"]), self.pick(["1", "2", "100", "3.5", "0"]))

    def stmts(self):
        """one template instance: list of source lines"""
        k = self.i(0, 24)
        v = self.name("x")
        w = self.name("y")
        f = self.name("fn")
        c1, c2 = self.i(-2, 4), self.i(0, 6)
        if k == 0:
            return ["print(%s)" % self.const_expr()]
        if k == 1:
            return ["rec(%s)" % self.const_expr(3)]
        if k == 2:   # partial fold: variable (op) constant, arithmetic and not
            kind = self.i(0, 3)
            if kind == 0:
                return ["var %s = %d" % (v, c1), "print(%s %s %s)" % (v, self.pick(BIN_OPS), self.pick(INT_LITS + FLT_LITS))]
            if kind == 1:
                return ["var %s = \"s%d\"" % (v, c1), "print(%s + \"t\")" % v, "print(%s == \"s1\")" % v]
            if kind == 2:
                return ["var %s = [%d, 2]" % (v, c1), "print(%s == [1, 2])" % v]
            if self.i(0, 1) == 0:
                return ["class K%s { var q; def K%s() { this.q = %d } def `+`(int o) { this.q + o + 1000 } }" % (v, v, c1), "var %s = K%s()" % (v, v), "print(%s + 3)" % v]
            # arithmetic variable (op) non-arithmetic constant: a user-defined operator, or the dispatch error text
            return ["def `*`(int a, string b) { var r = \"\"; for (var j = 0; j < a; ++j) { r += b }; r }", "var %s = %d" % (v, abs(c1)), "print(%s * \"ab\")" % v,
                    "print(%s == \"3\")" % v, "print(%s + true)" % v]
        if k == 3:   # constant conditions
            cond = self.pick(["true", "false", "1 < 2", "2 < 1", "1 == 1 && false", "!false", "3 > 2 || undefined_never_reached_zz()"])
            return ["if (%s) { print(\"T%s\") } else { print(\"F%s\") }" % (cond, v, v), "print(%s ? %d : %d)" % (cond.replace(" || undefined_never_reached_zz()", ""), c1, c2)]
        if k == 4:   # if-init
            return ["if (var %s = %d; %s > %d) { print(%s) } else { print(\"no%s\") }" % (v, c2, v, c1, v, v)]
        if k == 5:   # blocks with and without declarations
            kind = self.i(0, 7)
            if kind == 5:    # the only declaration of the block sits in an expression position: if-condition, call argument, interpolation
                return ["var %s = %d" % (v, c1), "{ if (var %s = %s > %d) { print(%s) } }" % (w, v, c2, w), "var %s = 7" % w, "print(%s)" % w]
            if kind == 6:
                return ["{ print(var %s = %d) }" % (w, c1), "{ print(\"${var %s = %d}\") }" % (w, c2), "var %s = 8" % w, "print(%s)" % w]
            if kind == 7:
                return ["for (var %s = 0; %s < 3; ++%s) { if (var %s = %s > %d) { print(%s) } }" % (v, v, v, w, v, c1, v),
                        "var %s = 0" % v, "while (%s < 2) { ++%s; print(var %s = %s * 2) }" % (v, v, w, v)]
            if kind == 0:
                return ["{ print(%d) }" % c1, "{ { print(%d) } }" % c2]
            if kind == 1:
                return ["var %s = %d" % (v, c1), "{ var %s = %d; print(%s) }" % (v, c2, v), "print(%s)" % v]
            if kind == 2:
                return ["var %s = %d" % (v, c1), "{ var &%s = %s; %s = %d }" % (w, v, w, c2), "print(%s)" % v]
            if kind == 3:
                return ["var %s = %d" % (v, c1), "{ auto %s = %s + 1; { %s = %s * 2 } print(%s) }" % (w, v, w, w, w), "print(%s)" % v]
            return ["var %s = %d" % (v, c1), "{ var %s := %s; %s += 5 }" % (w, v, w), "print(%s)" % v]
        if k == 6:   # dead statements in non-final and final position
            return ["var %s = %d" % (v, c1), "def %s() { 1; %s_g; \"s\"; %d }" % (f, v, c2), "global %s_g = 3" % v, "print(%s())" % f, "%d; %s; true" % (c1, v), "print(%s)" % v]
        if k == 7:   # return forms
            kind = self.i(0, 3)
            if kind == 0:
                return ["def %s(a) { return a + %d }" % (f, c1), "print(%s(%d))" % (f, c2)]
            if kind == 1:
                return ["def %s(a) { if (a > %d) { return \"big\" }; return \"small\" }" % (f, c1), "print(%s(%d))" % (f, c2)]
            if kind == 2:
                return ["def %s(a) { { { return a * 2 } }; print(\"never\") }" % f, "print(%s(%d))" % (f, c2)]
            return ["var %s = fun(a) { return a - %d }" % (v, c1), "print(%s(%d))" % (v, c2), "def %s() { return }" % f, "%s()" % f]
        if k <= 13:  # the for-loop family
            lo, hi = self.i(-1, 2), self.i(0, 4)
            head = self.pick(["for (var I = %d; I < %d; ++I)" % (lo, hi)] * 4 + [
                "for (var I = %d; I <= %d; ++I)" % (lo, hi), "for (auto I = %d; I < %d; ++I)" % (lo, hi), "for (var I = %d; I < %d; I += 1)" % (lo, hi),
                "for (var I = %du; I < %du; ++I)" % (abs(lo), hi), "for (var I = %dl; I < %dl; ++I)" % (lo, hi), "for (var I = %d.0; I < %d.0; ++I)" % (lo, hi),
                "for (var I = %d; %d > I; ++I)" % (lo, hi),
                # bounds that are not an int: fractional, beyond INT_MAX, negative fractional, float typed
                "for (var I = %d; I < %d.5; ++I)" % (lo, hi), "for (var I = %d; I < %d.25f; ++I)" % (lo, hi), "for (var I = %d; I < 3000000000; ++I)" % lo,
                "for (var I = %d; I < 4294967297l; ++I)" % lo, "for (var I = %d; I < -0.5; ++I)" % lo,
                "for (var I = %d; OTHER < %d; ++I)" % (lo, hi), "for (var I = %d; I < %d; ++OTHER)" % (lo, hi), "for (var I = %d; OTHER < %d; ++OTHER)" % (lo, hi)]).replace("I", v)
            other = self.name("o")
            uses_other = "OTHER" in head
            head = head.replace("OTHER", other)
            body = self.pick([
                "print(I)", "sink_push(I)", "if (I == 1) { break }; print(I)", "if (I == 0) { continue }; rec(I)", "I = I + 1; print(I)",
                "{ var I = 9; print(I) }", "counter += I", "var q = I * 2; rec(q)",
                "%s = fun[I]() { I }" % w, "%s.push_back(fun[I]() { I * 10 })" % w, "%s := I" % w, "%s.push_back_ref(I)" % w,
                "for (var J = 0; J < 2; ++J) { rec(I * 10 + J) }"]).replace("I", v)
            pre, post = [], []
            if "3000000000" in head or "4294967297" in head:
                body = "if (%s > 3) { break }; " % v + body
            if uses_other:
                # the other variable drives (or is driven by) the header: make the loop terminate by advancing both in the body
                pre = ["var %s = %d" % (other, lo - 1 - self.i(0, 1))]     # not in step with the counter: honouring or ignoring the header is observable
                body = "rec(%s * 100 + %s); ++%s; if (%s > 6 || %s > 6) { break }" % (v, other, other if "++%s" % v in head else v, v, other)
                return pre + ["%s { %s }" % (head, body), "print(%s)" % other]
            if "fun[" in body and ".push_back" in body:
                pre, post = ["var %s = []" % w], ["for (g : %s) { print(g()) }" % w]
            elif "fun[" in body:
                pre, post = ["var %s = fun() { -1 }" % w], ["print(%s())" % w]
            elif ":=" in body:
                pre, post = ["var %s" % w], ["if (!%s.is_var_undef()) { print(%s) }" % (w, w)]
            elif "push_back_ref" in body:
                pre, post = ["var %s = []" % w], ["print(%s)" % w]
            if k == 13:   # return out of the enclosing function from inside the loop
                return ["def %s() { %s { if (%s == 1) { return \"r\" + to_string(%s) } }; return \"done\" }" % (f, head, v, v), "print(%s())" % f]
            return pre + ["%s { %s }" % (head, body)] + post
        if k == 14:  # Assign_Decl incl. redeclaration
            return ["var %s = %d" % (v, c1), "print(%s)" % v] + (["var %s = %d" % (v, c2)] if self.i(0, 3) == 0 else ["auto %s = %s + 1" % (w, v), "print(%s)" % w])
        if k == 15:  # unused call results
            return ["def %s(a) { counter += a; rec(a); a }" % f, "%s(1); %s(2)" % (f, f), "{ %s(3); %s(4) }" % (f, f), "for (var %s = 0; %s < 2; ++%s) { %s(%s); %s([1,2].size()) }" % (v, v, v, f, v, f),
                    "%s(\"tmp\" + \"x\").size()" % "to_string"]
        if k == 16:  # conversions of constants
            return ["print(%s(%s))" % (self.pick(["int", "double", "float", "long", "size_t", "unsigned_int" if False else "int"]), self.pick(["1", "2.5", "100", "0", "3u", "'a'"]))]
        if k == 17:  # while loops with constant / near-constant conditions
            return ["var %s = 0" % v, "while (%s < %d) { ++%s; if (%s == 2) { continue }; rec(%s) }" % (v, c2, v, v, v), "while (false) { print(\"never\") }"]
        if k == 18:  # ranged for + switch
            return ["for (%s : [%d, %d, 3]) { switch (%s) { case (1) { print(\"one\") } case (3) { print(\"three\"); break } default { print(\"d\") } } }" % (v, c1, c2, v)]
        if k == 19:  # fold-time errors must surface at the same point
            return ["print(\"before%s\")" % v, "print(%s)" % self.pick(["1/0", "5%0", "1 << 40", "(0-2147483647-1)/(0-1)", "2147483647 + 1", "1.0/0", "-5 % 3", "7u - 9u", "'a' + 1"])]
        if k == 20:  # logical operators with side effects
            return ["def %s(a) { rec(a); a > %d }" % (f, c1), "print(%s(1) && %s(5))" % (f, f), "print(%s(5) || %s(1))" % (f, f), "print(true || %s(9))" % f, "print(false && %s(9))" % f]
        if k >= 23:  # one loop *node* entered again while an earlier entry is still alive: recursion from the body, closures of an earlier entry called during a later one
            lo, hi = self.i(0, 1), self.i(2, 4)
            head = self.pick(["for (var I = %d; I < %d; ++I)" % (lo, hi)] * 3 + ["for (var I = %d; I <= %d; ++I)" % (lo, hi), "for (auto I = %d; I < %d; ++I)" % (lo, hi)]).replace("I", v)
            kind = self.i(0, 3)
            if kind == 0:
                return ["def %s(n) { %s { rec(n * 10 + %s); if (n > 0) { %s(n - 1) } }; n }" % (f, head, v, f), "print(%s(%d))" % (f, self.i(1, 2))]
            if kind == 1:
                return ["def %s(h) { var r = fun() { -1 }; %s { rec(h()); r = fun[%s]() { %s } }; r }" % (f, head, v, v),
                        "var %s = %s(fun() { -5 })" % (w, f), "var %s2 = %s(%s)" % (w, f, w), "print(%s())" % w, "print(%s2())" % w]
            if kind == 2:
                return ["var %s = []" % w, "def %s(n) { %s { %s.push_back(fun[%s, n]() { %s * 100 + n }); for (g : %s) { rec(g()) } } }" % (f, head, w, v, v, w), "%s(1)" % f, "%s(2)" % f,
                        "for (g : %s) { print(g()) }" % w]
            return ["def %s(n) { var s = 0; %s { s += %s; if (n > 0 && %s == %d) { s += %s(n - 1) * 10 } }; s }" % (f, head, v, v, lo + 1, f), "print(%s(2))" % f, "print(%s(0))" % f]
        if k == 22:  # && / || with a constant on one side and an operand of any type (bool or not) on the other: type checks and short circuits stay
            C = self.pick(["true", "false", "1 < 2", "!true", "2 == 3"])
            E = self.pick(["5", "0", "\"s\"", v, "%s(1)" % f, "%s(9)" % f, "[1]", "3.5", "%s_b" % v, "(%s > 1)" % v, "%s_i()" % f, "'c'"])
            form = self.pick(["%s && %s", "%s || %s"]) % ((C, E) if self.i(0, 2) else (E, C))
            use = self.pick(["print(%s)", "rec(%s)", "if (%s) { print(\"T\") } else { print(\"F\") }", "var %s_r = %%s; print(%s_r)" % (w, w), "print(!(%s))", "print((%s) ? 1 : 2)",
                             "print(true && (%s))",
                             "var %s_a := (%%s); print(%s_b); print(%s)" % (w, v, v), "var %s_a = (%%s); %s_a = !%s_a; print(%s_b)" % (w, w, w, v)]) % form
            return ["var %s = %d" % (v, c1), "var %s_b = %s" % (v, self.pick(["true", "false"])), "def %s(a) { rec(a); a > %d }" % (f, c2), "def %s_i() { rec(\"i\"); %d }" % (f, c1),
                    "print(\"before\")", use, "print(\"after\")"]
        return ["var %s = %d" % (v, c1), "var %s = %s" % (w, self.const_expr()), "print(%s)" % w, "print(%s %s %s)" % (v, self.pick(["+", "*", "-", "<", "=="]), self.pick(INT_LITS))]


@st.composite
def cases(draw):
    use_prog = draw(st.integers(0, 3)) > 0
    prog = draw(progs.programs(with_faults=True)) if use_prog else None
    t = T(draw)
    extra = []
    for _ in range(draw(st.integers(0 if use_prog else 1, 4))):
        extra += t.stmts()
    return {"prog": prog, "extra": extra}


def strategy():
    return cases()


def build(c):
    if c["prog"] is not None:
        prog = json.loads(json.dumps(c["prog"]))
        pr = refchai.Printer(prog.get("layout"))
        full = pr.program(prog)
        result_line = full.rstrip("\n").split("\n")[-1]
        head = full[: len(full.rstrip("\n")) - len(result_line)]
        return head + "\n".join(c["extra"]) + "\n" + result_line + "\n"
    return "\n".join(c["extra"]) + "\n"


def observation(r):
    o = {"out": r["out"], "rec": r["rec"], "counter": r["counter"], "sink": r["sink"]}
    if "exc" in r:
        e = r["exc"]
        o["exc"] = e["kind"]
        o["exc_detail"] = e.get("r") if e["kind"] == "boxed" else e.get("reason", e.get("what"))
    else:
        o["res"] = (r["res"]["t"], r["res"]["r"])
    return o


def check(c, ctx):
    text = build(c)
    trees = ctx.request({"cmd": "trees", "script": text})
    if "parse_error" in trees["opt"] or "parse_error" in trees["noopt"]:
        if ("parse_error" in trees["opt"]) != ("parse_error" in trees["noopt"]) or trees["opt"].get("parse_error") != trees["noopt"].get("parse_error"):
            raise Violation("parse outcome differs: optimized %s, unoptimized %s" % (trees["opt"].get("parse_error"), trees["noopt"].get("parse_error")), {"program": text})
        ctx.classify("outcome", "parse_error")
        return
    differs = trees["opt"]["dump"] != trees["noopt"]["dump"]
    if differs:
        ctx.nontrivial(text)
        ho, hn = trees["opt"]["hist"], trees["noopt"]["hist"]
        for kind in ("Compiled", "Scopeless_Block", "Assign_Decl", "Unused_Return_Fun_Call"):
            if ho.get(kind, 0) > hn.get(kind, 0):
                ctx.classify("rewrites_seen", kind)
        for kind in ("Binary", "Prefix", "If", "Return", "Block", "Constant", "Fun_Call", "Id", "Noop"):
            if ho.get(kind, 0) < hn.get(kind, 0):
                ctx.classify("rewrites_seen", "fewer_" + kind)
    res = ctx.request({"cmd": "run", "script": text, "engines": [{"opt": True}, {"opt": False}]})["results"]
    a, b = observation(res[0]), observation(res[1])
    ctx.classify("outcome", a.get("exc", "value"))
    ctx.sample({"program": text, "observation": a}, limit=1)
    if a != b:
        diff = [k for k in sorted(set(a) | set(b)) if a.get(k) != b.get(k)]
        raise Violation("optimized and unoptimized evaluation differ on %s: optimized %s, unoptimized %s" % (diff, {k: a.get(k) for k in diff}, {k: b.get(k) for k in diff}),
                        {"program": text})


def root_cause(f):
    w = f["what"]
    return "crash" if "died" in w else w[:50]


def main(tier):
    vlib.ensure_built("runner")
    ev = vlib.Evidence(PID, tier)
    ev.cov["rule"] = RULE
    ev.assumptions = ["every generated identifier resolves (a statement consisting of an unresolvable name is outside the quantifier); AST reflection is never generated",
                      "both evaluations run in one ASan/UBSan-instrumented process with stack-use-after-return detection on"]
    n = 5000 if tier == "quick" else 60000
    failures = hyp.run("c02", ev, tier, n)
    confirmed = hyp.confirm("c02", failures, PID)
    for p, what in confirmed:
        vlib.violation(PID, p, what)
    vlib.finish(ev, len(confirmed))


def replay(path):
    vlib.ensure_built("runner")
    return hyp.replay("c02", path)
