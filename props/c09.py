"""C09 - every evaluation leaves the engine's scope/call stack as it found it (fault enumeration).

A generated program is run once fault-free to count the N dynamic invocations of the harness callback cb(); it is then
re-run on a fresh engine for every k in 1..N with cb() throwing on its k-th call, for each exception kind.  After eval
returns/throws the stack shape (hook verif_engine()) must equal the pre-call shape, get_locals() must hold exactly the
completed top-level declarations, and a sanity script must evaluate normally.
"""
import json

from hypothesis import strategies as st

import hyp
import progs
import refchai
import vlib
from hyp import Violation

PID = "C09"
KINDS = ["runtime_error", "out_of_range", "int", "foreign", "boxed", "eval_error"]
RULE = ("programs from the shared grammar-directed generator with cb(tag) calls inserted at every nesting position (statement positions in function, "
        "method, lambda, loop, switch, block bodies; inside conditions, call arguments and guards) plus templates (for_each/map callbacks, attribute-"
        "held functions, bind targets, user type conversions, try/catch/finally bodies); each program x every k-th callback invocation (k<=cap) x "
        "exception kinds {std::runtime_error, std::out_of_range, int, non-std class, Boxed_Value, eval_error}. Oracle: stack shape after eval == shape "
        "before; locals == completed top-level declarations; no inner name visible; sanity script returns 42. non-trivial = the fault fired with >=1 "
        "function frame or >=2 scopes open (stack shape snapshot taken at throw time); distinct = distinct (program, k, kind) triples")
BASE = {"stacks": 1, "scopes": 1, "call_params": 1, "call_params_back": 0, "call_depth": 0, "saves_enabled": False, "saves": 0}
SANITY = "def zz_s(a) { var t = a; for (var i = 0; i < 2; ++i) { t += i }; t }\nclass ZzK { var v; def ZzK() { this.v = 40 } def get() { this.v } }\ntry { throw(1) } catch(e) { }\nzz_s(ZzK().get() + 1)"

TEMPLATES = [
    ["for_each([1, 2], fun(x) { cb(\"fe\") })"],
    ["var mp_T = map([1, 2], fun(x) { cb(\"map\") + x })"],
    ["var ob_T = Dynamic_Object(); ob_T.f = fun(x) { { var deep_T = cb(\"attr\") }; x }", "ob_T.f(3)"],
    ["def bt_T(a, b) { var in_T = cb(\"bind\") + a; in_T }", "var bd_T = bind(bt_T, 1, _)", "bd_T(2)"],
    ["try { cb(\"try\"); var tr_T = 1 } catch(e) { cb(\"catch\"); var ct_T = 2 } finally { cb(\"fin\"); var fn_T = 3 }"],
    ["try { try { cb(\"t2\") } finally { var f2_T = cb(\"f2\") } } catch(e) { var c2_T = 0 }"],
    ["class Kc_T { var q; def Kc_T() { this.q = cb(\"ctor\") } def run(a) { var r_T = cb(\"meth\") + a; if (a > 0) { return this.run(a - 1) }; r_T } }", "Kc_T().run(2)"],
    ["def gd_T(x) : cb(\"guard\") > 0 && x > 100 { 1 }", "def gd_T(x) { cb(\"guard_body\") }", "gd_T(5)"],
    ["switch (cb(\"sw\") * 0 + 2) { case (cb(\"case\") * 0 + 2) { var sw_T = cb(\"in_case\") } default { cb(\"dflt\") } }"],
    ["var w_T = 0", "while (w_T < 2 && cb(\"wcond\") > 0) { ++w_T; { var wb_T = cb(\"wbody\") } }"],
    ["var v_T = [cb(\"vec\"), 2]", "var m_T = [\"k\": cb(\"mapv\")]", "var s_T = \"a${cb(\"interp\")}b\""],
    ["def rc_T(n) { if (n <= 0) { return cb(\"rec_base\") }; var keep_T = n; rc_T(n - 1) + keep_T }", "rc_T(3)"],
    ["def arg_T(a, b) { a + b }", "arg_T(cb(\"arg1\"), arg_T(1, cb(\"arg2\")))"],
    ["var lam_T = fun(a) { fun(b) { cb(\"inner_lam\") + b }(a) }", "lam_T(1)"],
    ["for (e_T : [1, 2]) { if (e_T == 2) { cb(\"rfor\") } else { continue } }"],
    # declarations in expression positions (conditions, ternary arms, call arguments) as the only declaration of a block / loop body
    ["{ if (var cd_T = cb(\"ifdecl\") > 0) { cb(\"ifbody\") } }"],
    ["{ sink_push(var td_T = cb(\"argdecl\")) }"],
    ["var wi_T = 0", "while (wi_T < 2) { ++wi_T; if (var wd_T = cb(\"wdecl\") > 0) { sink_push(wi_T) } }"],
    ["for (var fi_T = 0; var fd_T = fi_T < 2 && cb(\"forcond\") > 0; ++fi_T) { sink_push(fi_T) }"],
    ["if (true) { if (auto nd_T = cb(\"nested_if_decl\") > 0) { sink_push(1) } else { sink_push(2) } }"],
    ["{ rec(\"${var ad_T = cb(\"interp_decl\")}\") }", "try { { sink_push(var ae_T = 3); cb(\"after_decl\") } } catch(e) { }"],
]


def insert_cbs(prog, picks):
    """insert ["expr", cb(tag)] statements into blocks of the AST; picks steers where (list of small ints, cycled)"""
    state = {"k": 0, "n": 0}

    def want():
        v = picks[state["k"] % len(picks)] if picks else 0
        state["k"] += 1
        return v % 3 == 0

    def cbstmt():
        state["n"] += 1
        return ["expr", ["call", "cb", [["s", "p%d" % state["n"]]]]]

    def walk_block(blk):
        out = []
        for s in blk:
            if want():
                out.append(cbstmt())
            walk_stmt(s)
            out.append(s)
        blk[:] = out

    def walk_expr(e):
        if not isinstance(e, list) or not e:
            return
        if e[0] == "lam":
            walk_block(e[3])
        for x in e[1:]:
            if isinstance(x, list):
                if x and isinstance(x[0], str):
                    walk_expr(x)
                else:
                    for y in x:
                        if isinstance(y, list):
                            walk_expr(y)

    def walk_stmt(s):
        k = s[0]
        if k == "if":
            for arm in s[1]:
                if want():
                    state["n"] += 1
                    arm[0] = ["bin", "&&", ["bin", ">", ["call", "cb", [["s", "c%d" % state["n"]]]], ["i", 0]], arm[0]]
                walk_block(arm[1])
            if s[2] is not None:
                walk_block(s[2])
        elif k == "while":
            walk_block(s[2])
        elif k == "for":
            walk_block(s[5])
        elif k == "rfor":
            walk_block(s[3])
        elif k == "switch":
            for c in s[2]:
                walk_block(c[1])
            if s[3] is not None:
                walk_block(s[3])
        elif k == "block":
            walk_block(s[1])
        elif k == "var":
            walk_expr(s[2])

    for d in prog["defs"]:
        if d[0] == "def":
            walk_block(d[4])
        else:
            walk_block(d[4])
            for m in d[5]:
                walk_block(m[2])
    walk_block(prog["main"])


@st.composite
def cases(draw):
    prog = draw(progs.programs(with_faults=False))
    return {"prog": prog, "picks": draw(st.lists(st.integers(0, 8), min_size=1, max_size=8)),
            "templates": draw(st.lists(st.integers(0, len(TEMPLATES) - 1), min_size=1, max_size=3, unique=True)),
            "kind_rot": draw(st.integers(0, 5))}


def strategy():
    return cases()


def top_names(stmts):
    out = []
    for s in stmts:
        if s[0] in ("var", "ref"):
            out.append(s[1])
    return out


def inner_names(prog):
    """names declared anywhere below the top level of main (blocks, loops, functions, methods, lambdas)"""
    found = set()

    def walk_block(blk, top):
        for s in blk:
            if s[0] in ("var", "ref") and not top:
                found.add(s[1])
            if s[0] == "var" and isinstance(s[2], list) and s[2] and s[2][0] == "lam":
                found.update(s[2][1])
                walk_block(s[2][3], False)
            if s[0] == "if":
                for arm in s[1]:
                    walk_block(arm[1], False)
                if s[2] is not None:
                    walk_block(s[2], False)
            elif s[0] == "while":
                walk_block(s[2], False)
            elif s[0] == "for":
                found.add(s[1])
                walk_block(s[5], False)
            elif s[0] == "rfor":
                found.add(s[1])
                walk_block(s[3], False)
            elif s[0] == "switch":
                for c in s[2]:
                    walk_block(c[1], False)
                if s[3] is not None:
                    walk_block(s[3], False)
            elif s[0] == "block":
                walk_block(s[1], False)
    for d in prog["defs"]:
        if d[0] == "def":
            found.update(p[0] for p in d[2])
            walk_block(d[4], False)
        else:
            for m in d[5]:
                found.update(m[1])
                walk_block(m[2], False)
    walk_block(prog["main"], True)
    return found


def build(c):
    prog = json.loads(json.dumps(c["prog"]))
    insert_cbs(prog, c["picks"])
    pr = refchai.Printer(prog.get("layout"))
    defs_only = dict(prog, main=[], result=["i", 0])
    head = pr.program(defs_only).rstrip("\n").rsplit("\n", 1)[0] + "\n" if prog["defs"] else ""
    lines = []
    decl = []          # (statement index j, names declared at top level by it)
    j = 0
    for s in prog["main"]:
        lines.append("mark(\"%d\")" % j)
        lines.append(pr.s(s, 0).rstrip("\n"))
        decl.append(top_names([s]))
        j += 1
    tnames = set()
    for ti in c["templates"]:
        for line in TEMPLATES[ti]:
            line = line.replace("_T", "_t%d" % ti)
            lines.append("mark(\"%d\")" % j)
            lines.append(line)
            names = []
            st_ = line.strip()
            if st_.startswith("var "):
                names.append(st_[4:].split(" ")[0].split("=")[0].strip())
            decl.append(names)
            j += 1
    text = head + "\n".join(lines) + "\nmark(\"%d\")\n0\n" % j
    inner = inner_names(prog) | {"deep_t2", "in_t3", "tr_t4", "ct_t4", "fn_t4", "f2_t5", "c2_t5", "r_t6", "sw_t8", "wb_t9", "keep_t11", "cd_t15", "td_t16", "wd_t17", "fi_t18", "fd_t18", "nd_t19", "ad_t20", "ae_t20", "x", "a", "b", "e", "n"}
    top_all = set(n for names in decl for n in names)
    return text, decl, inner - top_all


def check_run(ctx, text, decl, inner, k, kind, baseline_total):
    eng = {"opt": True}
    if k:
        eng.update({"cb_fail_at": k, "cb_fail_kind": kind})
    r = ctx.request({"cmd": "run", "script": text, "engines": [eng], "shape": True, "post": [SANITY]})["results"][0]
    where = "k=%s kind=%s" % (k, kind)
    if r["shape"] != BASE:
        raise Violation("stack shape after eval differs from the pre-call shape (%s): %s" % (where, r["shape"]), {"program": text, "k": k, "kind": kind})
    marks = [int(m) for m in r["trace"]]
    last = marks[-1] if marks else -1
    locs = set(r["locals"]) - {"counter", "sink"}
    required = set(n for j, names in enumerate(decl) if j < last for n in names)
    allowed = required | set(decl[last] if 0 <= last < len(decl) else [])
    if not required <= locs:
        raise Violation("top-level declarations completed before the failure are gone (%s): missing %s" % (where, sorted(required - locs)), {"program": text, "k": k, "kind": kind})
    leaked = (locs - allowed)
    if leaked:
        raise Violation("names that should not be visible at top level after eval (%s): %s" % (where, sorted(leaked)), {"program": text, "k": k, "kind": kind, "inner": sorted(leaked & inner)})
    post = r["post"][0]
    if "exc" in post or post["res"]["r"] != "i32:42":
        raise Violation("engine does not evaluate a subsequent script normally (%s): %s" % (where, post.get("exc") or post["res"]["r"]), {"program": text, "k": k, "kind": kind})
    if r["shape_after_post"] != BASE:
        raise Violation("stack shape after the follow-up script differs (%s): %s" % (where, r["shape_after_post"]), {"program": text, "k": k, "kind": kind})
    return r


def check(c, ctx):
    text, decl, inner = build(c)
    cap = 10 if ctx.tier != "thorough" else 25
    r0 = check_run(ctx, text, decl, inner, 0, None, None)
    if "exc" in r0 and r0["exc"]["kind"] == "eval_error" and "parse" in (r0["exc"].get("reason") or "").lower():
        raise hyp.Inconclusive("program does not parse")
    n = min(r0["cb_total"], cap)
    ctx.classify("callbacks_per_program", "0" if n == 0 else "1-3" if n <= 3 else "4-10" if n <= 10 else ">10")
    kinds = KINDS if ctx.tier == "thorough" else [KINDS[(c["kind_rot"]) % 6], KINDS[(c["kind_rot"] + 3) % 6]]
    for k in range(1, n + 1):
        for kind in kinds:
            ctx.count("fault_runs")
            r = check_run(ctx, text, decl, inner, k, kind, r0["cb_total"])
            sh = r.get("cb_shape") or {}
            if sh.get("call_depth", 0) >= 1 or sh.get("scopes", 0) >= 2 or sh.get("stacks", 0) >= 2:
                ctx.nontrivial((text, k, kind))
            ctx.classify("fault_kind", kind)
            ctx.classify("escaped_as", r.get("exc", {}).get("kind", "caught-or-none"))
    ctx.sample({"program": text, "callbacks": r0["cb_total"]}, limit=1)


def root_cause(f):
    return f["what"][:40]


def main(tier):
    vlib.ensure_built("runner")
    ev = vlib.Evidence(PID, tier, level="fault_enumeration")
    ev.cov["rule"] = RULE
    ev.assumptions = ["the stack shape is read through the guarded accessor verif_engine(); callback invocations beyond the cap (10 quick / 25 thorough) are not faulted",
                      "quick tier uses two exception kinds per program (rotating), thorough all six"]
    n = 240 if tier == "quick" else 2400
    failures = hyp.run("c09", ev, tier, n)
    ev.cov["programs"] = ev.cov.get("evaluations", 0)
    ev.cov["evaluations"] = ev.cov.get("fault_runs", 0) + ev.cov.get("evaluations", 0)
    confirmed = hyp.confirm("c09", failures, PID)
    for p, what in confirmed:
        vlib.violation(PID, p, what)
    vlib.finish(ev, len(confirmed))


def replay(path):
    vlib.ensure_built("runner")
    return hyp.replay("c09", path)
