"""C13 - one engine may be used from many threads at once (engine T: seeded stress workloads under ThreadSanitizer)."""
import json
import os
import re
import subprocess

import vlib

PID = "C13"
RULE = ("seeded workloads: T in {2,4,8,16} threads on one engine, 30-80 operations per thread drawn from {call shared script functions, evaluate with "
        "locals of the same names on every thread, def new functions / globals / classes with thread-unique names, C++ add(fun) / add_global, add a "
        "type conversion and use it, use() of one file by all, get_state}, seeded sleeps/yields between operations, then 12 rounds in which all threads register the same new name at the same "
        "moment (exactly one may succeed), 8 rounds in which every thread adds an overload of its own parameter type to one shared name at the same "
        "moment - on odd rounds while half of the threads call that name - after which all T overloads must be callable from every thread, then after "
        "a barrier calls to everything registered by another thread; every workload repeated R times. Oracle: ThreadSanitizer silent; every result equals its "
        "arithmetically known value; nothing registered is lost; the used file ran once; a thread's top-level local is its own. non-trivial = a "
        "repetition in which >=2 threads were inside the engine at the same time (measured); distinct = distinct (workload, repetition) pairs")
ENV = {"TSAN_OPTIONS": "halt_on_error=1:exitcode=66:second_deadlock_stack=1"}


def run_slice(binary, seed, first, n, reps, timeout):
    try:
        r = subprocess.run([binary, str(seed), str(first), str(n), str(reps)], stdout=subprocess.PIPE, stderr=subprocess.PIPE, env=dict(os.environ, **ENV), timeout=timeout)
        return r.returncode, r.stdout.decode(errors="replace"), r.stderr.decode(errors="replace")
    except subprocess.TimeoutExpired as e:
        return -999, (e.stdout or b"").decode(errors="replace"), (e.stderr or b"").decode(errors="replace")


def replay_workload(binary, seed, w, reps=5):
    """-> (number of failing repetitions, description)"""
    bad, desc = 0, ""
    for _ in range(reps):
        rc, out, err = run_slice(binary, seed, w, 1, 1, 300)
        if rc == 66 or "ThreadSanitizer" in err:
            bad += 1
            m = re.search(r"WARNING: ThreadSanitizer: ([^\n]*)", err)
            loc = re.findall(r"#\d+ [^\n]*?(chaiscript::[A-Za-z_:<>]+)", err)
            desc = "ThreadSanitizer: %s (%s)" % (m.group(1) if m else "report", ", ".join(loc[:3]))
        elif rc != 0:
            bad += 1
            f = [l for l in out.splitlines() if l.startswith("FAIL")]
            desc = f[0] if f else "exit status %d" % rc
    return bad, desc


def main(tier):
    bins = vlib.ensure_built("stress_tsan")
    ev = vlib.Evidence(PID, tier)
    ev.cov["rule"] = RULE
    ev.assumptions = ["stress + ThreadSanitizer samples schedules: a race between two rarely executed sites within a window of a few instructions can be missed; "
                      "a schedule is not replayable exactly, a failing workload is replayed 5 times and reported when it fails at least twice",
                      "no yield hook is compiled into the library: schedule diversity comes from seeded sleeps/yields between operations and from repetition"]
    seed = vlib.seed()
    nproc = vlib.NCPU
    per = 12 if tier == "quick" else 100
    reps = 4 if tier == "quick" else 10
    from concurrent.futures import ThreadPoolExecutor
    with ThreadPoolExecutor(max_workers=nproc) as ex:
        futs = [ex.submit(run_slice, bins["stress_tsan"], seed, i * per, per, reps, 3000) for i in range(nproc)]
        results = [f.result() for f in futs]
    runs = overl = ops = 0
    suspects = set()
    for i, (rc, out, err) in enumerate(results):
        m = re.search(r"STATS (\{.*\})", out)
        if m:
            st = json.loads(m.group(1))
            runs += st["runs"]
            overl += st["overlapped_runs"]
            ops += st["operations"]
            ev.sample(st["sample"], limit=6)
        for line in out.splitlines():
            mm = re.match(r"FAIL workload=(\d+)", line)
            if mm:
                suspects.add(int(mm.group(1)))
        if rc == 66 or "ThreadSanitizer" in err:
            # the slice died at its first race: find the workload by replaying the slice's workloads one by one
            done = len(re.findall(r"^FAIL", out, re.M))
            for w in range(i * per, (i + 1) * per):
                b, d = replay_workload(bins["stress_tsan"], seed, w, reps=2)
                if b:
                    suspects.add(w)
                    break
        elif rc == -999:
            ev.count("inconclusive_timeouts")
    ev.cov["evaluations"] = runs
    ev.cov["distinct_nontrivial"] = overl
    ev.cov["operations"] = ops
    ev.cov["workloads"] = nproc * per
    ev.cov["repetitions_per_workload"] = reps
    confirmed = []
    for w in sorted(suspects)[:6]:
        bad, desc = replay_workload(bins["stress_tsan"], seed, w)
        if bad >= 2:
            p = vlib.save_replay(PID, {"property": PID, "seed": seed, "workload": w, "what": desc, "failed_repetitions_of_5": bad})
            confirmed.append((p, "workload %d (seed %d) fails %d/5 repetitions: %s" % (w, seed, bad, desc)))
        else:
            ev.count("non_recurring_reports")
    seen = set()
    out = []
    for p, what in confirmed:
        key = re.sub(r"workload \d+|\d+/5", "", what)[:80]
        if key not in seen:
            seen.add(key)
            out.append((p, what))
    for p, what in out:
        vlib.violation(PID, p, what)
    vlib.finish(ev, len(out))


def replay(path):
    bins = vlib.ensure_built("stress_tsan")
    doc = json.load(open(path))
    bad, desc = replay_workload(bins["stress_tsan"], doc["seed"], doc["workload"])
    print("fails %d/5 repetitions: %s" % (bad, desc) if bad else "passes 5/5 repetitions")
    return 1 if bad >= 2 else 0
