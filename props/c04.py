"""C04 - a name resolves to its innermost live binding; lookup caches are invisible.

Programs in which one body is evaluated several times under different scope layouts; oracle: the same program with the
per-node lookup cache disabled (hook lookup_cache_off forces the by-name search) must behave identically, plus a few
generator-known expected values (innermost binding).
"""
from hypothesis import strategies as st

import hyp
import vlib
from hyp import Violation

PID = "C04"
RULE = ("programs in which one function body / lambda / loop body is evaluated >=2 times under different scope layouts: eval()-injected locals, "
        "conditional and expression-level declarations, recursion with depth-dependent branches, one lambda called directly / as object attribute / "
        "through bind / as for_each callback, names that are a global on one evaluation and a local on another, loops declaring different variables "
        "per iteration; every order of calls. Oracle = differential against the same program evaluated with the lookup cache disabled (by-name "
        "search every time). non-trivial = the cached run took >=1 fast-path (cached slot) lookup and the program contains a layout-varying "
        "construct on the path to a re-evaluated identifier; distinct = distinct program texts")

LOCALS = ["a", "b", "c", "d"]
SHARED = ["n", "m"]           # also exist as globals


@st.composite
def fn_case(draw):
    """a function with flags; slots declare / inject / read names; called with several flag tuples"""
    nflags = draw(st.integers(1, 3))
    slots = []
    for _ in range(draw(st.integers(2, 7))):
        k = draw(st.sampled_from(["decl", "decl", "evaldecl", "evaldecl", "read", "read", "read", "blockshadow", "exprdecl", "assign", "innerfun", "nest", "nest"]))
        name = draw(st.sampled_from(LOCALS + SHARED))
        slots.append({"k": k, "name": name, "flag": draw(st.integers(0, nflags - 1)), "val": draw(st.integers(1, 99)), "neg": draw(st.booleans()),
                      "depth": draw(st.integers(1, 3)), "level": draw(st.integers(0, 3)), "flag2": draw(st.integers(0, nflags - 1)), "level2": draw(st.integers(0, 3))})
    calls = draw(st.lists(st.lists(st.booleans(), min_size=nflags, max_size=nflags), min_size=2, max_size=5))
    return {"kind": "fn", "nflags": nflags, "slots": slots, "calls": calls, "globals": draw(st.lists(st.sampled_from(SHARED), max_size=2, unique=True)),
            "late_global": draw(st.booleans())}


@st.composite
def lam_case(draw):
    order = draw(st.permutations(["direct", "attr", "bind", "for_each", "direct2", "method"]))
    return {"kind": "lam", "order": list(order), "cval": draw(st.integers(1, 50)), "nparams": draw(st.integers(0, 1)), "extra_local": draw(st.booleans())}


@st.composite
def rec_case(draw):
    return {"kind": "rec", "depth": draw(st.integers(1, 5)), "mod": draw(st.integers(2, 3)), "flag": draw(st.integers(0, 2)),
            "calls": draw(st.lists(st.integers(0, 5), min_size=1, max_size=3)), "inject_at": draw(st.integers(0, 4))}


@st.composite
def loop_case(draw):
    return {"kind": "loop", "n": draw(st.integers(2, 5)), "inject": sorted(set(draw(st.lists(st.integers(0, 4), max_size=3)))),
            "shadow_mod": draw(st.integers(2, 3)), "global_x": draw(st.booleans()), "reps": draw(st.integers(1, 2))}


@st.composite
def fnglobal_case(draw):
    """names that are functions first and become globals later: the same Id nodes are read before and after (third tier of the lookup order)"""
    steps = draw(st.lists(st.sampled_from(["probe", "probe", "lam", "g1", "g2", "loop", "fresh", "attr"]), min_size=3, max_size=9))
    return {"kind": "fnglobal", "steps": steps, "v": draw(st.integers(1, 90)), "at": draw(st.integers(0, 2)), "nonfunc_first": draw(st.booleans())}


def strategy():
    return st.one_of(fn_case(), fn_case(), lam_case(), rec_case(), loop_case(), fnglobal_case())


def build(c):
    L = []
    if c["kind"] == "fn":
        for g in c["globals"]:
            if not c["late_global"]:
                L.append("global %s = %d" % (g, 1000 + ord(g)))
        L.append("def helper_zz(x) { x + 1 }")
        params = ", ".join("p%d" % i for i in range(c["nflags"]))
        body = []
        for s in c["slots"]:
            cond = ("!" if s["neg"] else "") + "p%d" % s["flag"]
            n, v = s["name"], s["val"]
            if s["k"] == "decl":
                body.append("if (!is_declared_zz_%s) { }" % n if False else "var %s_l%d = %d; rec(%s_l%d)" % (n, v, v, n, v))
            elif s["k"] == "evaldecl":
                body.append("if (%s) { eval(\"var %s = %d\") }" % (cond, n, v))
            elif s["k"] == "read":
                body.append("rec(helper_zz(%s))" % n)
            elif s["k"] == "blockshadow":
                body.append("{ if (%s) { var %s = %d; rec(%s) }; rec(%s) }" % (cond, n, v, n, n))
            elif s["k"] == "exprdecl":
                # a declaration in call-argument position, as the only declaration of its block
                body.append("if (%s) { rec(var %s = %d); rec(%s) }" % (cond, n, v, n))
            elif s["k"] == "nest":
                # nested scopes (each kept alive by a declaration of its own); under a flag, eval() declares the name in one of the levels
                # between the function scope and the read, under another flag in a second level: the innermost read must see the nearest one
                d = s["depth"]
                txt = "rec(%s)" % n
                for lvl in range(d, 0, -1):
                    inj = ""
                    if s["level"] % (d + 1) == lvl:
                        inj += "if (%s) { eval(\"var %s = %d\") }; " % (cond, n, 100 + v)
                    if s["level2"] % (d + 1) == lvl:
                        inj += "if (p%d) { eval(\"var %s = %d\") }; " % (s["flag2"], n, 200 + v)
                    txt = "{ var pad%d_%d = %d; %s%s }" % (lvl, v, lvl, inj, txt)
                if s["level"] % (d + 1) == 0:
                    txt = "if (%s) { eval(\"var %s = %d\") }; " % (cond, n, 100 + v) + txt
                body.append(txt)
            elif s["k"] == "assign":
                body.append("%s = %s + 1" % (n, n))
            else:
                body.append("rec(fun(q) { q * 2 }(%s))" % n)
        # every shared/local name is readable under every flag combination: seed them first
        seed = ["var %s = %d" % (n, 10 + i) for i, n in enumerate(LOCALS)]
        L.append("def f(%s) {\n  %s\n  %s\n  rec(a + b)\n}" % (params, "\n  ".join(seed[: 2]), "\n  ".join(body)))
        # names not seeded (c, d, and n, m when not global) may be unresolvable on some calls: that is an error in both runs
        for i, flags in enumerate(c["calls"]):
            if c["late_global"] and i == 1:
                for g in c["globals"]:
                    L.append("global %s = %d" % (g, 1000 + ord(g)))
            L.append("try { f(%s) } catch(e) { rec(\"err\") }" % ", ".join("true" if x else "false" for x in flags))
    elif c["kind"] == "lam":
        L.append("var c = %d" % c["cval"])
        if c["extra_local"]:
            L.append("var zz1 = 1; var zz2 = 2")
        if c["nparams"] == 0:
            L.append("var l = fun[c]() { c }")
            arg = ""
        else:
            L.append("var l = fun[c](x) { c + x }")
            arg = "5"
        L.append("var o = Dynamic_Object(); o.f = l")
        L.append("class Holder { var g; def Holder(h) { this.g = h } def call() { this.g(%s) } }" % arg)
        L.append("var hld = Holder(l)")
        for w in c["order"]:
            if w in ("direct", "direct2"):
                L.append("rec(l(%s))" % arg)
            elif w == "attr":
                L.append("rec(o.f(%s))" % arg)
            elif w == "bind":
                L.append("rec(bind(l%s)())" % (", 5" if arg else ""))
            elif w == "for_each":
                L.append("for_each([1, 2], fun[l](e) { rec(l(%s)) })" % arg)
            else:
                L.append("rec(hld.call())")
    elif c["kind"] == "rec":
        L.append("global n = 500")
        L.append("def r(k, flag) {\n  if (k %% %d == flag) { var t = k * 10; rec(t) }\n  if (k == %d) { eval(\"var u = 77\") }\n  var u2 = k\n  if (k > 0) { r(k - 1, flag) }\n  rec(u2)\n  rec(n)\n}" % (c["mod"], c["inject_at"]))
        for d in c["calls"]:
            L.append("r(%d, %d)" % (d, c["flag"] % c["mod"]))
    elif c["kind"] == "fnglobal":
        v = c["v"]
        L.append("def show_zz(v) { if (is_type(v, \"Function\")) { return \"fn\" }; return to_string(v) }")
        L.append("def h1() { 41 }\ndef h2() { 42 }")
        L.append("def probe() { rec(show_zz(h1)); rec(show_zz(h2)) }")
        L.append("var lamp = fun() { rec(show_zz(h1)); rec(show_zz(h2)) }")
        L.append("var ob = Dynamic_Object(); ob.f = fun() { rec(show_zz(h2)) }")
        if c["nonfunc_first"]:
            L.append("probe(); lamp()")
        nfresh = 0
        for i, stp in enumerate(c["steps"]):
            if stp == "probe":
                L.append("probe()")
            elif stp == "lam":
                L.append("lamp()")
            elif stp == "attr":
                L.append("ob.f()")
            elif stp == "g1":
                L.append("global h1 = %d" % (v + i))
            elif stp == "g2":
                L.append("global h2 = %d" % (2 * v + i))
            elif stp == "loop":
                L.append("for (var i = 0; i < 3; ++i) { rec(show_zz(h2)); rec(show_zz(h1)); if (i == %d) { eval(\"global h%d = %d\") } }" % (c["at"], 1 + i % 2, 300 + v + i))
            else:
                nfresh += 1
                L.append("def probe_%d() { rec(show_zz(h1)); rec(show_zz(h2)) }\nprobe_%d()" % (nfresh, nfresh))
    else:
        if c["global_x"]:
            L.append("global x = 1")
        else:
            L.append("var x = 1")
        for _ in range(c["reps"]):
            L.append("for (var i = 0; i < %d; ++i) {\n  if (%s) { eval(\"var z = 9\") }\n  var q = i * 2\n  if (i %% %d == 0) { var x = 50 + i; rec(x) } else { rec(x) }\n  rec(q)\n}" % (
                c["n"], " || ".join("i == %d" % k for k in c["inject"]) or "false", c["shadow_mod"]))
            L.append("var w = 0; while (w < %d) { ++w; if (w == 2) { eval(\"var y = 3\") }; var v = w + x; rec(v) }" % c["n"] if _ == 0 else "rec(x)")
    return "\n".join(L) + "\nrec(\"end\")\n"


def obs(r):
    o = {"out": r["out"], "rec": r["rec"]}
    if "exc" in r:
        o["exc"] = r["exc"]["kind"]
        o["why"] = r["exc"].get("reason") or r["exc"].get("r") or r["exc"].get("what")
    else:
        o["res"] = r["res"]["r"]
    return o


def check(c, ctx):
    text = build(c)
    res = ctx.request({"cmd": "run", "script": text, "engines": [{"opt": True, "cache_off": False}, {"opt": True, "cache_off": True}]})["results"]
    a, b = obs(res[0]), obs(res[1])
    varying = c["kind"] != "fn" or any(s["k"] in ("evaldecl", "blockshadow", "exprdecl", "nest") for s in c["slots"])
    if res[0].get("fast_hits", 0) >= 1 and varying:
        ctx.nontrivial(text)
    ctx.classify("family", c["kind"])
    ctx.sample({"program": text, "observed": a["rec"][:12]}, limit=1)
    if a != b:
        diff = [k for k in sorted(set(a) | set(b)) if a.get(k) != b.get(k)]
        raise Violation("lookup cache changes behaviour (%s): cached %s, by-name %s" % (diff, {k: a.get(k) for k in diff}, {k: b.get(k) for k in diff}), {"program": text})
    # generator-known expectation: the captured value, whatever the call form
    if c["kind"] == "lam" and "exc" not in res[0]:
        want = "i32:%d" % (c["cval"] + (5 if c["nparams"] else 0))
        vals = [x for x in a["rec"] if x != 'str:"end"']
        if any(v != want for v in vals):
            raise Violation("a lambda capturing c=%d returned %s through some call form (expected %s every time)" % (c["cval"], vals, want), {"program": text})


def root_cause(f):
    return f["case"]["kind"] + ("/exp" if "capturing" in f["what"] else "")


def main(tier):
    vlib.ensure_built("runner")
    ev = vlib.Evidence(PID, tier)
    ev.cov["rule"] = RULE
    ev.assumptions = ["hook lookup_cache_off makes every identifier lookup take the by-name search path (the reference behaviour); a defect common to both paths is only "
                      "visible through the generator-known expectations and through C03"]
    n = 4000 if tier == "quick" else 60000
    failures = hyp.run("c04", ev, tier, n)
    confirmed = hyp.confirm("c04", failures, PID)
    for p, what in confirmed:
        vlib.violation(PID, p, what)
    vlib.finish(ev, len(confirmed))


def replay(path):
    vlib.ensure_built("runner")
    return hyp.replay("c04", path)
