"""C15 - get_state / set_state restore the global environment exactly (stateful, dictionary model)."""
import copy
import os

from hypothesis import strategies as st

import hyp
import vlib
from hyp import Violation

PID = "C15"
RULE = ("sequences (<=30 steps) of {def script function / new overload (int, string, untyped), add C++ function (int / string variant), global, set_global (re-binding), const "
        "global, class definition, add user type, use(file), top-level local, get_state, set_state(any earlier snapshot), call of a long-lived function} "
        "checked after every step against a dictionary model: overload counts per name, function objects, globals (values of const ones), type names, "
        "used files, locals, the value of every global binding created by `global`/set_global and never assigned in place, and a probe call of every modelled function with an int and a string argument. non-trivial = >=1 set_state to a "
        "snapshot that is not the latest state followed by a probe of something added or shadowed in between; distinct = distinct step sequences")

SNAMES = ["zz_s1", "zz_s2", "zz_s12", "zz_s"]      # some names are prefixes of others: a lookup must compare whole names
CNAMES = ["zz_c1", "zz_c12"]
GNAMES = ["zz_g1", "zz_g2"]
KNAMES = ["zz_k1", "zz_k2"]
TNAMES = ["ZzT1", "ZzT2"]
CLASSES = ["ZzC1", "ZzC2"]
FILES = ["u1.chai", "u2.chai"]

step = st.one_of(
    st.fixed_dictionaries({"op": st.just("sdef"), "name": st.sampled_from(SNAMES), "variant": st.sampled_from(["int", "string", "untyped"]), "k": st.integers(1, 50)}),
    st.fixed_dictionaries({"op": st.just("sdef"), "name": st.sampled_from(SNAMES), "variant": st.sampled_from(["int", "string", "untyped"]), "k": st.integers(1, 50)}),
    st.fixed_dictionaries({"op": st.just("cadd"), "name": st.sampled_from(CNAMES), "variant": st.sampled_from(["int", "string"]), "k": st.integers(1, 50)}),
    st.fixed_dictionaries({"op": st.just("global"), "name": st.sampled_from(GNAMES), "k": st.integers(1, 50)}),
    st.fixed_dictionaries({"op": st.just("gset"), "name": st.sampled_from(GNAMES), "k": st.integers(1, 50), "as_string": st.booleans()}),
    st.fixed_dictionaries({"op": st.just("gconst"), "name": st.sampled_from(KNAMES), "k": st.integers(1, 50)}),
    st.fixed_dictionaries({"op": st.just("class"), "name": st.sampled_from(CLASSES), "k": st.integers(1, 50)}),
    st.fixed_dictionaries({"op": st.just("type"), "name": st.sampled_from(TNAMES), "k": st.integers(0, 3)}),
    st.fixed_dictionaries({"op": st.just("use"), "file": st.sampled_from(FILES)}),
    st.fixed_dictionaries({"op": st.just("local"), "k": st.integers(1, 50)}),
    st.fixed_dictionaries({"op": st.just("get")}),
    st.fixed_dictionaries({"op": st.just("get")}),
    st.fixed_dictionaries({"op": st.just("set"), "which": st.integers(0, 9)}),
    st.fixed_dictionaries({"op": st.just("set"), "which": st.integers(0, 9)}),
    st.fixed_dictionaries({"op": st.just("call_long_lived")}),
)


def _reg():
    return step.filter(lambda d: d["op"] in ("sdef", "cadd", "global", "gset", "gconst", "class", "type"))


@st.composite
def branching(draw):
    """two sibling histories from one snapshot, each with the same number of registrations, then a restore from one to the other:
    ... get, A.., get, set(first), B.., set(second) ..."""
    pre = draw(st.lists(step, max_size=6))
    a = draw(st.lists(_reg(), min_size=1, max_size=3))
    b = draw(st.lists(_reg(), min_size=len(a), max_size=len(a)))
    post = draw(st.lists(step, max_size=6))
    return pre + [{"op": "get"}] + a + [{"op": "get"}, {"op": "set", "which": 0, "rel": 1}] + b + [{"op": "set", "which": 0, "rel": 0}] + post


def strategy():
    return st.fixed_dictionaries({"steps": st.one_of(st.lists(step, min_size=2, max_size=30), st.lists(step, min_size=2, max_size=30), branching())})


class Model:
    def __init__(self):
        self.funcs = {}       # name -> {variant: k}
        self.globals = {}     # name -> ("mutable", cell id) | ("const", k)
        self.celltype = {}
        self.cells = {}       # cell id -> rendering of the value, or None once it was assigned in place.  NOT part of a snapshot: a binding
                              # (cell) is shared between the live state and the snapshots holding it, and the property does not say whether an
                              # in-place assignment is visible through a snapshot, so such a cell's value is never compared again
        self.types = set()
        self.classes = {}     # name -> k
        self.used = set()
        self.locals = []
        self.snaps = []

    def snapshot(self):
        return copy.deepcopy((self.funcs, self.globals, self.types, self.classes, self.used))

    def restore(self, s):
        self.funcs, self.globals, self.types, self.classes, self.used = copy.deepcopy(s)


def probe_expect(variants, arg):
    """variants: {variant: k}; script variants return k*10 (+0 int / +1 string / +2 untyped); C++ variants x+k / size+k"""
    if arg == "int":
        if "int" in variants:
            return variants["int"]
        if "untyped" in variants:
            return variants["untyped"]
        return None
    if "string" in variants:
        return variants["string"]
    if "untyped" in variants:
        return variants["untyped"]
    return None


def check(c, ctx):
    root = vlib.workdir("c15_%d_%d" % (os.getpid(), ctx.idx)) + "/"
    for f in FILES:
        with open(root + f, "w") as fh:
            fh.write("rec(\"%s\")\n" % f)
    eid = ctx.request({"cmd": "new", "opt": True, "usepaths": [root]})["id"]
    M = Model()
    nontrivial = False
    restored_older = False
    trace = []
    nlocal = 0
    try:
        # a long-lived function defined before the first snapshot: it calls the modelled functions by name on every use
        # ... and one caller per modelled name whose body names the function directly: these syntax trees live from before the first
        # snapshot to the end, so whatever they cached about the function table must survive every set_state
        direct = "\n".join("def zz_d_%s(a) { return %s(a) }" % (n, n) for n in SNAMES + CNAMES)
        r = ctx.request({"cmd": "eval", "id": eid, "script": "def zz_long(n, a) { return eval(n)(a) }\n" + direct + "\n0"})
        if "exc" in r:
            raise Violation("setup failed: %s" % r["exc"], {})
        used_rec = []
        for k, s_ in enumerate(c["steps"]):
            op = s_["op"]
            expect_err = False
            rr = None
            if op == "sdef":
                v, name, kk = s_["variant"], s_["name"], s_["k"]
                val = kk * 10 + {"int": 0, "string": 1, "untyped": 2}[v]
                sig = {"int": "int x", "string": "string x", "untyped": "x"}[v]
                script = "def %s(%s) { %d }" % (name, sig, val)
                expect_err = v in M.funcs.get(name, {})
                rr = ctx.request({"cmd": "eval", "id": eid, "script": script + "\n0"})
                if not expect_err:
                    M.funcs.setdefault(name, {})[v] = val
                trace.append(script)
            elif op == "cadd":
                v, name, kk = s_["variant"], s_["name"], s_["k"]
                expect_err = v in M.funcs.get(name, {})
                rr = ctx.request({"cmd": "c15", "id": eid, "op": "add_fun", "name": name, "variant": v, "k": kk})
                if not expect_err:
                    M.funcs.setdefault(name, {})[v] = ("cpp", kk)
                trace.append("add(fun(%s %s+%d), %s)" % (v, v, kk, name))
            elif op == "global":
                name = s_["name"]
                # `global x = v` on an existing global assigns
                rr = ctx.request({"cmd": "eval", "id": eid, "script": "global %s = %d\n0" % (name, s_["k"])})
                if name in M.globals and M.celltype[M.globals[name][1]] == "str":
                    expect_err = True                            # no int -> string assignment
                elif name in M.globals:
                    M.cells[M.globals[name][1]] = None          # assigned in place
                else:
                    M.celltype[len(M.cells)] = "int"
                    M.cells[len(M.cells)] = "i32:%d" % s_["k"]
                    M.globals[name] = ("mutable", len(M.cells) - 1)
                trace.append("global %s = %d" % (name, s_["k"]))
            elif op == "gset":
                # set_global re-binds the name to a new object (or creates it): a snapshot taken before keeps the old binding
                name = s_["name"]
                lit, rend = ("\"s%d\"" % s_["k"], 'str:"s%d"' % s_["k"]) if s_["as_string"] else ("%d" % s_["k"], "i32:%d" % s_["k"])
                rr = ctx.request({"cmd": "eval", "id": eid, "script": "{ var t = %s; set_global(t, \"%s\") }\n0" % (lit, name)})
                M.celltype[len(M.cells)] = "str" if s_["as_string"] else "int"
                M.cells[len(M.cells)] = rend
                M.globals[name] = ("mutable", len(M.cells) - 1)
                trace.append("set_global(%s, %s)" % (lit, name))
            elif op == "gconst":
                name = s_["name"]
                expect_err = name in M.globals
                rr = ctx.request({"cmd": "c15", "id": eid, "op": "add_global_const", "name": name, "k": s_["k"]})
                if not expect_err:
                    M.globals[name] = ("const", s_["k"])
                trace.append("add_global_const(%d, %s)" % (s_["k"], name))
            elif op == "class":
                name = s_["name"]
                expect_err = name in M.classes
                script = "class %s { def %s() { } def zz_m_%s() { %d } }" % (name, name, name, s_["k"])
                rr = ctx.request({"cmd": "eval", "id": eid, "script": script + "\n0"})
                if not expect_err:
                    M.classes[name] = s_["k"]
                trace.append(script)
            elif op == "type":
                name = s_["name"]
                rr = ctx.request({"cmd": "c15", "id": eid, "op": "add_type", "name": name, "k": s_["k"]})
                rr.pop("exc", None) if name in M.types else None    # re-adding a type name is not required to fail or to succeed
                M.types.add(name)
                trace.append("add(user_type, %s)" % name)
            elif op == "use":
                f = s_["file"]
                rr = ctx.request({"cmd": "use", "id": eid, "path": f})
                if root + f not in M.used:
                    M.used.add(root + f)
                    used_rec.append('str:"%s"' % f)
                if rr.get("rec") != used_rec:
                    raise Violation("step %d use(%s): files evaluated so far %s, model says %s" % (k, f, rr.get("rec"), used_rec), {"trace": trace})
                trace.append("use(%s)" % f)
            elif op == "local":
                nlocal += 1
                name = "zz_l%d" % nlocal
                rr = ctx.request({"cmd": "eval", "id": eid, "script": "var %s = %d\n0" % (name, s_["k"])})
                M.locals.append(name)
                trace.append("var %s" % name)
            elif op == "get":
                rr = ctx.request({"cmd": "c15", "id": eid, "op": "get_state"})
                M.snaps.append(M.snapshot())
                trace.append("get_state -> %d" % (len(M.snaps) - 1))
            elif op == "set":
                if not M.snaps:
                    continue
                i = s_["which"] % len(M.snaps) if "rel" not in s_ else max(0, len(M.snaps) - 1 - s_["rel"])
                older = M.snaps[i] != M.snapshot()
                rr = ctx.request({"cmd": "c15", "id": eid, "op": "set_state", "snap": i})
                M.restore(M.snaps[i])
                restored_older = restored_older or older
                trace.append("set_state(%d)%s" % (i, " [differs from current]" if older else ""))
            elif op == "call_long_lived":
                trace.append("probe through zz_long")
            if rr is not None and op not in ("use",):
                got_err = "exc" in rr
                if got_err != expect_err:
                    raise Violation("step %d `%s`: %s, model expects %s" % (k, trace[-1], ("raised %s" % (rr["exc"].get("reason") or rr["exc"].get("what") or rr["exc"].get("kind"))) if got_err else "succeeded",
                                                                            "an error (already defined)" if expect_err else "success"), {"trace": trace})
            # ---- observation after every step
            pr = ctx.request({"cmd": "c15", "id": eid, "op": "probe", "exists": SNAMES + CNAMES + CLASSES})
            want_over = {n: len(v) for n, v in M.funcs.items() if v}
            want_over["zz_long"] = 1      # defined before the first snapshot: present in every state
            for n_ in SNAMES + CNAMES:
                want_over["zz_d_" + n_] = 1
            for cl in M.classes:
                want_over[cl] = 1
                want_over["zz_m_" + cl] = 1
            if pr["overloads"] != want_over:
                raise Violation("after step %d `%s`: overloads per name are %s, model says %s" % (k, trace[-1], pr["overloads"], want_over), {"trace": trace})
            if sorted(pr["function_objects"]) != sorted(want_over):
                raise Violation("after step %d `%s`: function objects are %s, model says %s" % (k, trace[-1], sorted(pr["function_objects"]), sorted(want_over)), {"trace": trace})
            for n in SNAMES + CNAMES + CLASSES:
                if pr["exists"][n] != (n in want_over):
                    raise Violation("after step %d `%s`: function_exists(%s) is %s, model says %s" % (k, trace[-1], n, pr["exists"][n], n in want_over), {"trace": trace})
            want_g = {n: ("mutable" if kind == "mutable" else "i32:%d" % val) for n, (kind, val) in M.globals.items()}
            if pr["globals"] != want_g:
                raise Violation("after step %d `%s`: globals are %s, model says %s" % (k, trace[-1], pr["globals"], want_g), {"trace": trace})
            for n, (kind, cell) in sorted(M.globals.items()):
                if kind == "mutable" and M.cells[cell] is not None:
                    r2 = ctx.request({"cmd": "eval", "id": eid, "script": n})
                    got = None if "exc" in r2 else r2["res"]["r"]
                    if got != M.cells[cell]:
                        raise Violation("after step %d `%s`: global %s is %s, model says %s (bound by its creation / set_global, never assigned since)" % (
                            k, trace[-1], n, got or "an error", M.cells[cell]), {"trace": trace})
            if sorted(pr["types"]) != sorted(M.types):
                raise Violation("after step %d `%s`: type names are %s, model says %s" % (k, trace[-1], sorted(pr["types"]), sorted(M.types)), {"trace": trace})
            if sorted(pr["locals"]) != sorted(M.locals):
                raise Violation("after step %d `%s`: top-level locals are %s, model says %s (set_state must not disturb them)" % (k, trace[-1], sorted(pr["locals"]), sorted(M.locals)), {"trace": trace})
            if sorted(pr["used"]) != sorted(M.used):
                raise Violation("after step %d `%s`: used-file records are %s, model says %s" % (k, trace[-1], sorted(pr["used"]), sorted(M.used)), {"trace": trace})
            # behaviour: probe calls (directly, and through the long-lived function every few steps)
            via_long = op in ("set", "call_long_lived")
            for n in SNAMES + CNAMES:
                for arg, lit in (("int", "1"), ("string", "\"ab\"")):
                    v = probe_expect(M.funcs.get(n, {}), arg)
                    if isinstance(v, tuple):
                        v = (1 + v[1]) if arg == "int" else (2 + v[1])
                    script = ("zz_long(\"%s\", %s)" % (n, lit)) if via_long else ("zz_d_%s(%s)" % (n, lit)) if k % 2 else ("%s(%s)" % (n, lit))
                    r2 = ctx.request({"cmd": "eval", "id": eid, "script": script})
                    got = None if "exc" in r2 else r2["res"]["r"]
                    want = None if v is None else "i32:%d" % v
                    if got != want:
                        raise Violation("after step %d `%s`: `%s` gives %s, model says %s" % (k, trace[-1], script, got or "an error", want or "an error (no such overload)"), {"trace": trace})
                    if restored_older:
                        nontrivial = True
            for cl in CLASSES:
                r2 = ctx.request({"cmd": "eval", "id": eid, "script": "%s().zz_m_%s()" % (cl, cl)})
                got = None if "exc" in r2 else r2["res"]["r"]
                want = "i32:%d" % M.classes[cl] if cl in M.classes else None
                if got != want:
                    raise Violation("after step %d `%s`: `%s().zz_m_%s()` gives %s, model says %s" % (k, trace[-1], cl, cl, got or "an error", want or "an error"), {"trace": trace})
        if nontrivial:
            ctx.nontrivial(tuple(trace))
        ctx.classify("sequences", "with_restore_of_older_state" if restored_older else "no_effective_restore")
        ctx.sample({"steps": trace[:14]}, limit=1)
    finally:
        try:
            ctx.request({"cmd": "c15", "id": eid, "op": "drop"})
            ctx.request({"cmd": "del", "id": eid})
        except (Violation, hyp.Inconclusive):
            pass


def root_cause(f):
    import re
    w = re.sub(r"step \d+", "step", f["what"])
    return w[:45]


def main(tier):
    vlib.ensure_built("runner")
    ev = vlib.Evidence(PID, tier)
    ev.cov["rule"] = RULE
    ev.assumptions = ["a mutable global that was assigned in place (`global g = v` on an existing g) shares its object with snapshots by design: its value is not compared; "
                      "values of bindings that were only created / re-bound (set_global) and of const globals are",
                      "re-adding an existing type name is neither required to fail nor to succeed; active binary modules are not exercised (no loadable module offline)"]
    n = 480 if tier == "quick" else 4000
    failures = hyp.run("c15", ev, tier, n)
    confirmed = hyp.confirm("c15", failures, PID)
    for p, what in confirmed:
        vlib.violation(PID, p, what)
    vlib.finish(ev, len(confirmed))


def replay(path):
    vlib.ensure_built("runner")
    return hyp.replay("c15", path)
