"""C16 - literals denote the values and types they denote in C++.

Parts: (a) exhaustive integer boundary grid, (b) random float spellings vs correctly rounded values (16 ulp),
(c) string/char literals vs a reference escape decoder, (d) word literals and keyword hash colliders found by search
at check time.  (a) and (d) are deterministic loops; (b) and (c) are Hypothesis properties.
"""
import itertools
import os
import subprocess

import numpy as np
from hypothesis import strategies as st

import hyp
import runner_client
import vlib
from hyp import Violation

PID = "C16"
RULE = ("integer literals: every base x suffix spelling x value in {2^k-1, 2^k, 2^k+1 : k=7,8,15,16,31,32,63,64} the C++ typing ladder can hold "
        "(exhaustive grid) plus random values; float literals: random digit/exponent spellings with suffixes vs the correctly rounded value "
        "(<=16 ulp); string/char literals: sequences of plain bytes and every escape form incl. truncated / out-of-range ones vs a reference "
        "decoder (REJECT => eval_error); identifiers whose hash collides with a keyword (searched at check time). non-trivial = integer at a "
        "type boundary +-1, float with exponent or >=15 digits, string with >=1 escape or '$', collider/keyword-prefixed identifier; "
        "distinct = distinct literal spellings")

I32, U32, I64, U64 = "i32", "u32", "i64", "u64"
RANGE = {I32: (-2**31, 2**31 - 1), U32: (0, 2**32 - 1), I64: (-2**63, 2**63 - 1), U64: (0, 2**64 - 1)}


CT = {"int": I32, "unsigned int": U32, "long": I64, "unsigned long": U64, "long long": I64, "unsigned long long": U64}


def ladder(decimal, suffix):
    """the C++ literal typing sequence [lex.icon] as exact C++ types"""
    s = suffix.lower()
    u = "u" in s
    ll = "ll" in s
    l = ("l" in s) and not ll
    if ll:
        return ["unsigned long long"] if u else (["long long"] if decimal else ["long long", "unsigned long long"])
    if l:
        return ["unsigned long", "unsigned long long"] if u else (["long", "long long"] if decimal else ["long", "unsigned long", "long long", "unsigned long long"])
    if u:
        return ["unsigned int", "unsigned long", "unsigned long long"]
    return ["int", "long", "long long"] if decimal else ["int", "unsigned int", "long", "unsigned long", "long long", "unsigned long long"]


def expected_ctype(value, decimal, suffix):
    for t in ladder(decimal, suffix):
        lo, hi = RANGE[CT[t]]
        if lo <= value <= hi:
            return t
    return None  # ill-formed in C++ (no type can hold it): outside the quantifier


def expected_int(value, decimal, suffix):
    t = expected_ctype(value, decimal, suffix)
    return None if t is None else CT[t]


def spell(value, base):
    if base == 10:
        return str(value)
    if base == 8:
        return "0" + oct(value)[2:] if value else "0"
    if base == 16:
        return "0x" + hex(value)[2:]
    return "0b" + bin(value)[2:]


SUFFIXES = ["", "u", "U", "l", "L", "ul", "uL", "Ul", "UL", "lu", "LU", "lU", "Lu", "ll", "LL", "ull", "uLL", "Ull", "ULL", "llu", "LLU", "llU", "LLu"]


def int_grid():
    vals = set([0, 1, 7, 8, 9])
    for k in (7, 8, 15, 16, 31, 32, 63, 64):
        vals.update([2**k - 1, 2**k, 2**k + 1])
    vals = sorted(v for v in vals if v < 2**64)
    for v, base, sfx in itertools.product(vals, (10, 8, 16, 2), SUFFIXES):
        t = expected_int(v, base == 10, sfx)
        if t is None:
            continue
        text = spell(v, base)
        for variant in ({text, text.replace("0x", "0X"), text.replace("0b", "0B"), text.upper() if base == 16 else text}):
            if variant.startswith("0X") and base != 16:
                continue
            yield variant + sfx, v, t, expected_ctype(v, base == 10, sfx)


# ---- reference string decoder -----------------------------------------------------------------------------------
SIMPLE = {"'": 0x27, '"': 0x22, "?": 0x3f, "\\": 0x5c, "a": 7, "b": 8, "f": 12, "n": 10, "r": 13, "t": 9, "v": 11, "$": 0x24}
HEXD = "0123456789abcdefABCDEF"


def utf8(cp):
    return chr(cp).encode("utf-8")


def decode(body, interpolate):
    """bytes of the literal body -> decoded bytes, or None for REJECT. `body` is a latin-1 str."""
    out = bytearray()
    i, n = 0, len(body)
    while i < n:
        c = body[i]
        if c == "\\":
            i += 1
            if i >= n:
                return None
            e = body[i]
            if e in SIMPLE:
                out.append(SIMPLE[e])
                i += 1
            elif e in "01234567":
                j = i
                while j < n and j - i < 3 and body[j] in "01234567":
                    j += 1
                v = int(body[i:j], 8)
                if v > 0xff:
                    return None
                out.append(v)
                i = j
            elif e == "x":
                j = i + 1
                while j < n and j - (i + 1) < 2 and body[j] in HEXD:
                    j += 1
                if j == i + 1:
                    return None
                out.append(int(body[i + 1:j], 16))
                i = j
            elif e in "uU":
                want = 4 if e == "u" else 8
                j = i + 1
                while j < n and j - (i + 1) < want and body[j] in HEXD:
                    j += 1
                if j - (i + 1) != want:
                    return None
                cp = int(body[i + 1:j], 16)
                if 0xD800 <= cp <= 0xDFFF or cp > 0x10FFFF:
                    return None
                out += utf8(cp)
                i = j
            else:
                return None
        elif c == "$" and interpolate and i + 1 < n and body[i + 1] == "{":
            j = body.find("}", i + 2)
            if j < 0:
                return None
            inner = body[i + 2:j]
            if inner != "1":          # the generator only emits ${1}
                return None
            out += b"1"
            i = j + 1
        else:
            out.append(ord(c))
            i += 1
    return bytes(out)


PLAIN = [chr(c) for c in range(0x20, 0x7f) if chr(c) not in '"\\$\''] + [chr(c) for c in (0x80, 0xa9, 0xc3, 0xe9, 0xff)] + ["\t"]
ESC_OK = ["\\'", '\\"', "\\?", "\\\\", "\\a", "\\b", "\\f", "\\n", "\\r", "\\t", "\\v", "\\$", "\\0", "\\7", "\\12", "\\101", "\\377", "\\18", "\\1234",
          "\\x41", "\\x4", "\\x414", "\\xfF", "\\x00", "\\u0041", "\\u00e9", "\\u20AC", "\\uFFFF", "\\U0001F600", "\\U00000041", "\\U0010FFFF",
          "\\u00411", "\\141\\x62"]
ESC_BAD = ["\\400", "\\777", "\\x", "\\xg", "\\u", "\\u1", "\\u12", "\\u123", "\\u12g4", "\\U", "\\U0001F60", "\\U0001F6", "\\uD800", "\\uDFFF", "\\uDBff",
           "\\U00110000", "\\UFFFFFFFF", "\\U0000D800", "\\q", "\\8", "\\9", "\\ ", "\\U7FFFFFFF", "\\U80000000"]
DOLLAR = ["$", "$$", "$ {", "${1}", "$a", "$}", "{$", "\\${1}", "$\\x41"]


@st.composite
def string_case(draw):
    kind = draw(st.sampled_from(["str", "str", "str", "chr"]))
    if kind == "chr":
        piece = draw(st.one_of(st.sampled_from(PLAIN + ['"', "$"]), st.sampled_from(ESC_OK), st.sampled_from(ESC_BAD), st.just("ab"), st.just("")))
        tail = draw(st.sampled_from(["", "", "", "a", "1", "f"]))
        return {"part": "chr", "body": piece + tail}
    pieces = draw(st.lists(st.one_of(st.sampled_from(PLAIN), st.sampled_from(PLAIN), st.sampled_from(ESC_OK), st.sampled_from(ESC_OK),
                                     st.sampled_from(ESC_BAD), st.sampled_from(DOLLAR), st.sampled_from(["'", "g", "0", "7", "8", "f", "F"])),
                           min_size=0, max_size=6))
    return {"part": "str", "body": "".join(pieces)}


@st.composite
def float_case(draw):
    ip = draw(st.text(alphabet="0123456789", min_size=1, max_size=12))
    fp = draw(st.one_of(st.none(), st.text(alphabet="0123456789", min_size=1, max_size=14)))
    form = draw(st.sampled_from(["dot", "dot", "exp", "dotexp", "leaddot", "smallfrac", "smallfrac"])) if fp is not None else "exp"
    sfx = draw(st.sampled_from(["", "", "f", "F", "l", "L"]))
    lim = {"f": 30, "": 290, "l": 4000}[sfx.lower()]
    e = draw(st.integers(-lim, lim))
    echar = draw(st.sampled_from(["e", "E"]))
    esign = "-" if e < 0 else draw(st.sampled_from(["", "+"]))
    exp = "%s%s%d" % (echar, esign, abs(e))
    if form == "smallfrac":
        # positional notation with many decimal places: zeros after the point, then significant digits (optionally scaled back up by an exponent)
        zeros = draw(st.integers(0, 30))
        text = draw(st.sampled_from(["0", "0", "", "3"])) + "." + "0" * zeros + fp
        if draw(st.booleans()):
            text += "e+%d" % draw(st.integers(0, zeros + 2))
    elif form == "dot":
        text = ip + "." + fp
    elif form == "exp":
        text = ip + exp
    elif form == "dotexp":
        text = ip + "." + fp + exp
    else:
        text = "." + fp
    return {"part": "flt", "text": text, "sfx": sfx}


def strategy():
    return st.one_of(string_case(), string_case(), float_case())


NPT = {"f32": np.float32, "f64": np.float64, "f80": np.longdouble}


def _engine(ctx):
    st_ = getattr(ctx, "_c16", None)
    if st_ is None or st_[0] != ctx.runner.restarts or st_[2] > 400:
        if st_ is not None and st_[0] == ctx.runner.restarts:
            ctx.request({"cmd": "del", "id": st_[1]})
        eid = ctx.request({"cmd": "new", "opt": True})["id"]
        st_ = [ctx.runner.restarts, eid, 0]
        ctx._c16 = st_
    st_[2] += 1
    return st_[1]


def ev_lit(ctx, src):
    return ctx.request({"cmd": "eval", "id": _engine(ctx), "script": src})


def check_float(c, ctx):
    text, sfx = c["text"], c["sfx"]
    tag = {"": "f64", "f": "f32", "l": "f80"}[sfx.lower()]
    T = NPT[tag]
    with np.errstate(all="ignore"):
        exp = T(np.longdouble(text)) if tag != "f64" else np.float64(float(text))
    if not np.isfinite(exp) or (exp != 0 and abs(exp) < np.finfo(T).tiny):
        raise hyp.Inconclusive("float outside the normal range of its type")
    digits = len(text.split("e")[0].split("E")[0].replace(".", ""))
    if "e" in text.lower() or digits >= 15:
        ctx.nontrivial(("flt", text + sfx))
    res = ev_lit(ctx, text + sfx)
    ctx.classify("part", "float/" + tag)
    ctx.sample({"literal": text + sfx, "expected": "%s:%r" % (tag, float(exp))}, limit=2)
    if "exc" in res:
        raise Violation("float literal %s%s raised %s" % (text, sfx, res["exc"].get("kind")), {"reply": res["exc"]})
    gt, _, gv = res["res"]["r"].partition(":")
    if gt != tag:
        raise Violation("float literal %s%s has type %s, C++ says %s" % (text, sfx, gt, tag))
    got = T(np.longdouble(gv))
    ulp = np.spacing(abs(exp)) if exp != 0 else np.finfo(T).tiny
    if abs(got - exp) > 16 * ulp:
        raise Violation("float literal %s%s evaluates to %s, correctly rounded value is %s (more than 16 ulp apart)" % (text, sfx, gv, repr(exp)))


def check_string(c, ctx):
    body = c["body"]
    is_chr = c["part"] == "chr"
    if is_chr:
        if "'" in body.replace("\\'", ""):
            raise hyp.Inconclusive("unescaped quote")
        src = "'" + body + "'"
        exp = decode(body, False)
        if exp is not None and len(exp) != 1:
            exp = None
    else:
        src = '"' + body + '"'
        exp = decode(body, True)
    if "\\" in body or "$" in body:
        ctx.nontrivial((c["part"], body))
    ctx.classify("part", c["part"] + ("/reject" if exp is None else "/accept"))
    ctx.sample({"literal": src, "expected": "REJECT" if exp is None else repr(exp)}, limit=2)
    res = ev_lit(ctx, src)
    if exp is None:
        if "exc" not in res:
            raise Violation("malformed literal %s accepted, value %s" % (src, res["res"]["r"]), {"src": src})
        if res["exc"]["kind"] != "eval_error":
            raise Violation("malformed literal %s raised %s instead of eval_error" % (src, res["exc"]["kind"]), {"src": src})
        return
    if "exc" in res:
        raise Violation("well-formed literal %s rejected: %s" % (src, res["exc"].get("reason") or res["exc"].get("kind")), {"src": src, "expected": repr(exp)})
    if is_chr:
        want = "char:%d" % (exp[0] if exp[0] < 128 else exp[0] - 256)
    else:
        want = "str:" + q(exp)
    if res["res"]["r"] != want:
        raise Violation("literal %s evaluates to %s, C++ decoding gives %s" % (src, res["res"]["r"], want), {"src": src})


def q(b):
    o = '"'
    for c in b:
        if c in (0x22, 0x5c):
            o += "\\" + chr(c)
        elif c < 0x20 or c >= 0x7f:
            o += "\\u%04x" % c
        else:
            o += chr(c)
    return o + '"'


def check(c, ctx):
    if c["part"] == "flt":
        check_float(c, ctx)
    elif c["part"] in ("str", "chr"):
        check_string(c, ctx)
    elif c["part"] == "int":
        check_int(c, ctx)
    elif c["part"] == "word":
        check_word(c, ctx)


def check_int(c, ctx):
    res = ev_lit(ctx, c["text"])
    if "exc" in res:
        raise Violation("integer literal %s raised %s: %s" % (c["text"], res["exc"].get("kind"), res["exc"].get("reason")), {})
    want = "%s:%d" % (c["type"], c["value"])
    if res["res"]["r"] != want:
        raise Violation("integer literal %s evaluates to %s, C++ says %s" % (c["text"], res["res"]["r"], want), {})
    if c.get("ctype") and res["res"].get("ctype") != c["ctype"]:
        raise Violation("integer literal %s has type %s, the first type of the C++ sequence able to hold it is %s" % (c["text"], res["res"].get("ctype"), c["ctype"]), {})


KEYWORDS = ["true", "false", "Infinity", "NaN", "__LINE__", "__FILE__", "__FUNC__", "__CLASS__", "def", "fun", "while", "for", "if", "else", "auto",
            "return", "break", "class", "attr", "var", "global", "GLOBAL", "_"]


def check_word(c, ctx):
    """c = {part:word, name: identifier, like: keyword or None}: the identifier must be an ordinary usable name"""
    x = c["name"]
    progs = [
        ("var %s = 5; %s + 1" % (x, x), "i32:6"),
        ("def %s() { 7 }; %s()" % (x, x), "i32:7"),
        ("def f(%s) { %s * 2 }; f(4)" % (x, x), "i32:8"),
        ("var o = 3; var %s = o; [%s, 1][0]" % (x, x), "i32:3"),
        ("global %s = 9; %s" % (x, x), "i32:9"),
    ]
    for src, want in progs:
        res = ctx.request({"cmd": "run", "script": src, "engines": [{"opt": True}]})["results"][0]
        got = res["res"]["r"] if "res" in res else "exception %s: %s" % (res["exc"].get("kind"), res["exc"].get("reason") or res["exc"].get("what"))
        if got != want:
            raise Violation("identifier '%s'%s is not an ordinary name: `%s` gives %s, expected %s" % (
                x, (" (hash collides with keyword '%s')" % c["like"]) if c.get("like") else "", src, got, want), {"src": src})


def root_cause(f):
    c = f["case"]
    if c["part"] == "word":
        return "word"
    return f["what"].split(" ")[0] + c["part"] + ("/rej" if "accepted" in f["what"] else "")


def word_literal_cases():
    # exact spellings
    yield "true", "bool:true"
    yield "false", "bool:false"
    yield "Infinity", "f64:inf"
    yield "-Infinity", "f64:-inf"
    yield "NaN == NaN", "bool:false"
    yield "__LINE__", "i32:1"
    yield "\n\n__LINE__", "i32:3"
    yield "__FILE__", 'str:"__EVAL__"'
    yield "__FUNC__", 'str:"NOT_IN_FUNCTION"'
    yield "def fn_x() { __FUNC__ }; fn_x()", 'str:"fn_x"'
    yield "__CLASS__", 'str:"NOT_IN_CLASS"'


def main(tier):
    bins = vlib.ensure_built("runner", "collide")
    ev = vlib.Evidence(PID, tier)
    ev.cov["rule"] = RULE
    ev.assumptions = ["LP64 widths (int 32, long = long long 64); the exact C++ type (long vs long long) of integer literals is compared",
                      "float tolerance 16 ulp of the target type; expected values from numpy longdouble / Python float (correctly rounded)",
                      "hex escapes take at most two digits (documented ChaiScript deviation); ${...} interpolation is only generated as ${1}"]
    confirmed = []

    # (a)+(d) deterministic parts on one runner
    ctx = hyp.Ctx(0, tier)
    det_failures = []

    def run_det(case):
        ev.count("evaluations")
        try:
            check(case, ctx)
        except Violation as v:
            det_failures.append({"case": case, "what": v.what, "detail": v.detail})
        except hyp.Inconclusive:
            pass

    n_int = 0
    for text, v, t, ct in int_grid():
        run_det({"part": "int", "text": text, "value": v, "type": t, "ctype": ct})
        n_int += 1
        if v >= 127:
            ev.nontrivial(("int", text))
    ev.cov["integer_grid_literals"] = n_int
    ev.cov["integer_grid_exhaustive"] = True
    ev.sample({"literal": "0x7fffffffu", "expected": "u32:2147483647"})
    import random
    rng = random.Random(vlib.seed())
    for _ in range(600 if tier == "quick" else 20000):
        base = rng.choice((10, 8, 16, 2))
        sfx = rng.choice(SUFFIXES)
        v = rng.getrandbits(rng.choice((5, 16, 31, 32, 33, 62, 63, 64)))
        t = expected_int(v, base == 10, sfx)
        if t is not None:
            run_det({"part": "int", "text": spell(v, base) + sfx, "value": v, "type": t, "ctype": expected_ctype(v, base == 10, sfx)})
            ev.nontrivial(("int", spell(v, base) + sfx))
    for src, want in word_literal_cases():
        ev.count("evaluations")
        res = ctx.request({"cmd": "run", "script": src, "engines": [{"opt": True}]})["results"][0]
        got = res["res"]["r"] if "res" in res else "exception"
        if got != want:
            det_failures.append({"case": {"part": "wordlit", "src": src}, "what": "word literal `%s` gives %s, expected %s" % (src, got, want)})
    # colliders, searched now with the tree's own hash function
    out = subprocess.run([bins["collide"]] + KEYWORDS, stdout=subprocess.PIPE, timeout=600).stdout.decode()
    colliders = [l.split() for l in out.splitlines() if l.strip()]
    ev.cov["keyword_colliders_found"] = len(colliders)
    near = [k + "_" for k in KEYWORDS if k != "_"] + ["_" + k for k in KEYWORDS if k != "_"] + [k + "x" for k in ("true", "false", "NaN", "Infinity", "__LINE__")] + ["True", "FALSE", "nan", "infinity", "__line__"]
    for like, name in colliders:
        run_det({"part": "word", "name": name, "like": like})
        ev.nontrivial(("word", name))
    for name in near:
        run_det({"part": "word", "name": name, "like": None})
        ev.nontrivial(("word", name))
    ev.sample({"collider_examples": colliders[:6]})
    ctx.close()

    # (b)+(c) Hypothesis
    n = 16000 if tier == "quick" else 300000
    failures = hyp.run("c16", ev, tier, n)
    # deterministic failures: dedupe wordlit separately
    for f in det_failures:
        if f["case"]["part"] == "wordlit":
            confirmed.append((vlib.save_replay(PID, {"property": PID, "what": f["what"], "case": f["case"]}), f["what"]))
            break
    confirmed += hyp.confirm("c16", [f for f in det_failures if f["case"]["part"] != "wordlit"] + failures, PID)
    for p, what in confirmed:
        vlib.violation(PID, p, what)
    vlib.finish(ev, len(confirmed))


def replay(path):
    vlib.ensure_built("runner")
    import json
    doc = json.load(open(path))
    if doc["case"].get("part") == "wordlit":
        r = runner_client.Runner()
        res = r.run(doc["case"]["src"], [{"opt": True}])[0]
        r.close()
        print(res.get("res") or res.get("exc"))
        return 0
    return hyp.replay("c16", path)
