"""C06 - C++ functions are only ever entered with correctly typed arguments.

A catalogue of logging C++ callables (runner/c06.cpp); a case registers a subset under one name in a generated order,
optionally registers conversions, and calls it with an argument tuple of script values of every kind.  Oracle: validity
invariants over the entry log, from a conservative three-valued compatibility table (exact / convertible / never / not
settled); plus the C++-receives direction through boxed_cast<T>.
"""
from hypothesis import strategies as st

import hyp
import vlib
from hyp import Violation

PID = "C06"
RULE = ("(overload subset of a 35-entry catalogue registered under one name in a generated order, conversions registered or not {base_class, "
        "vector_conversion, user conversion Other->int}, argument tuple of 0-2 script values out of 35 kinds: literals, script variables, const values, "
        "C++ objects shared by value / ref / const ref / pointer / const pointer / shared_ptr / shared_ptr<const>, Derived and Derived-as-Base and "
        "Sibling-as-Base handles, null shared_ptr, lambdas, vectors; call syntax f(a,b) or a.f(b)); and (script value, requested C++ type) pairs for "
        "boxed_cast<T>. Invariants: at most one entry per call, exactly one on success, none on failure; the entered overload is never incompatible "
        "with an argument; an exactly matching overload wins and the call then succeeds; no compatible overload => error without entry; each "
        "parameter received the script value (same address for reference/pointer/shared_ptr forms, converted value for by-value forms). "
        "non-trivial = >=2 overloads of which some but not all are compatible, or a conversion is needed, or a cast pair that must be refused; "
        "distinct = distinct (overload order, conversions, argument tuple) cases")

ARITH = {"int", "uint", "long", "double", "char"}
# catalogue id -> list of (bare type, form)
PARAMS = {
    "int": [("int", "val")], "cint_ref": [("int", "cref")], "int_ref": [("int", "ref")], "int_ptr": [("int", "ptr")], "cint_ptr": [("int", "cptr")],
    "int_sp": [("int", "sp")], "cint_sp": [("int", "csp")], "uint": [("uint", "val")], "long": [("long", "val")], "double": [("double", "val")],
    "char": [("char", "val")], "bool": [("bool", "val")], "str": [("str", "val")], "cstr_ref": [("str", "cref")], "str_ref": [("str", "ref")],
    "base_ref": [("Base", "ref")], "cbase_ref": [("Base", "cref")], "base_ptr": [("Base", "ptr")], "base_sp": [("Base", "sp")], "cbase_sp": [("Base", "csp")],
    "derived_ref": [("Derived", "ref")], "cderived_ref": [("Derived", "cref")], "derived_sp": [("Derived", "sp")], "other_cref": [("Other", "cref")],
    "sbase_cref": [("SBase", "cref")], "sderived_cref": [("SDerived", "cref")], "vec_cref": [("vecint", "cref")], "fn": [("fn", "val")], "bv": [("bv", "val")],
    "bn": [("bn", "val")], "int_str": [("int", "val"), ("str", "cref")], "str_int": [("str", "cref"), ("int", "val")], "dbl_dbl": [("double", "val"), ("double", "val")],
    "cbase_int": [("Base", "cref"), ("int", "val")], "none": [],
}
# script argument kinds: expr -> dict(type, const, holder, dyn, addr, value)
ARGS = {
    "5": dict(t="int", const=True, holder="val", value=5), "a_cvint": dict(t="int", const=True, holder="val", value=6),
    "ivar": dict(t="int", const=False, holder="sp", value=3), "a_iref": dict(t="int", const=False, holder="ref", addr="i_obj", value=7),
    "a_icref": dict(t="int", const=True, holder="ref", addr="i_obj", value=7), "a_iptr": dict(t="int", const=False, holder="ptr", addr="i_obj", value=7),
    "a_icptr": dict(t="int", const=True, holder="ptr", addr="i_obj", value=7), "a_isp": dict(t="int", const=False, holder="sp", addr="i_sp", value=8),
    "a_icsp": dict(t="int", const=True, holder="sp", addr="i_csp", value=9),
    "2.5": dict(t="double", const=True, holder="val", value=2.5), "dvar": dict(t="double", const=False, holder="sp", value=1.5),
    "'a'": dict(t="char", const=True, holder="val", value=97), "true": dict(t="bool", const=True, holder="val", value=True),
    "7u": dict(t="uint", const=True, holder="val", value=7), "9l": dict(t="long", const=True, holder="val", value=9),
    # values that do not survive a wrong-width / wrong-signedness intermediate
    "3000000000u": dict(t="uint", const=True, holder="val", value=3000000000), "0xFFFFFFFFu": dict(t="uint", const=True, holder="val", value=4294967295),
    "(-5)": dict(t="int", const=True, holder="val", value=-5), "5000000000l": dict(t="long", const=True, holder="val", value=5000000000),
    "(-3l)": dict(t="long", const=True, holder="val", value=-3), "200": dict(t="int", const=True, holder="val", value=200),
    "\"lit\"": dict(t="str", const=True, holder="val", value="lit"), "svar": dict(t="str", const=False, holder="sp", value="sv"),
    "a_sref": dict(t="str", const=False, holder="ref", addr="s_obj", value="sobj"), "a_scref": dict(t="str", const=True, holder="ref", addr="s_obj", value="sobj"),
    "a_bref": dict(t="Base", const=False, holder="ref", dyn="Base", addr="base", value=1), "a_bcref": dict(t="Base", const=True, holder="ref", dyn="Base", addr="base", value=1),
    "a_bptr": dict(t="Base", const=False, holder="ptr", dyn="Base", addr="base", value=1), "a_bcptr": dict(t="Base", const=True, holder="ptr", dyn="Base", addr="base", value=1),
    "a_bsp": dict(t="Base", const=False, holder="sp", dyn="Base", addr="b_sp", value=1), "a_bcsp": dict(t="Base", const=True, holder="sp", dyn="Base", addr="b_csp", value=1),
    "a_dref": dict(t="Derived", const=False, holder="ref", dyn="Derived", addr="derived", value=2), "a_dcref": dict(t="Derived", const=True, holder="ref", dyn="Derived", addr="derived", value=2),
    "a_dsp": dict(t="Derived", const=False, holder="sp", dyn="Derived", addr="d_sp", value=2),
    "a_dasb": dict(t="Base", const=False, holder="sp", dyn="Derived", addr="d_as_b", value=2),
    "a_sib_as_bref": dict(t="Base", const=False, holder="ref", dyn="Sibling", addr="sibling", value=3),
    "a_nullsp": dict(t="Base", const=False, holder="sp", dyn="null", addr=None, value="null"),
    "a_oth": dict(t="Other", const=False, holder="ref", addr="other", value=55),
    "a_sb": dict(t="SBase", const=True, holder="ref", addr="sbase", value=33), "a_sd": dict(t="SDerived", const=True, holder="ref", addr="sderived", value=44),
    "fun(x) { x + 1 }": dict(t="fn", const=False, holder="val", value=11), "[1, 2]": dict(t="vec", const=False, holder="val", value=2),
}
PRELUDE = "var ivar = 3; var dvar = 1.5; var svar = \"sv\"\n"
MUTABLE_FORMS = ("ref", "ptr", "sp")


def compat(arg, param, conv):
    """-> 'exact' | 'conv' | 'never' | 'unsure' for one argument against one parameter"""
    a = ARGS[arg]
    pt, form = param
    if pt == "bv":
        return "conv"
    if pt == "bn":
        return "conv" if a["t"] in ARITH else ("unsure" if a["t"] == "bool" else "never")
    if pt == "fn":
        return "conv" if a["t"] == "fn" else "never"
    if pt == "vecint":
        if a["t"] == "vec":
            return "conv" if conv["vector_conversion"] else "never"
        return "never"
    if a["t"] in ("fn", "vec"):
        return "never"
    if a["dyn" if "dyn" in a else "t"] == "null":
        return "unsure"
    const_blocked = a["const"] and form in MUTABLE_FORMS
    if pt in ARITH or pt == "bool":
        if a["t"] == pt:
            if const_blocked:
                # a const number asked for as shared_ptr<T>: the dispatcher may pass a converted *copy* (the const object itself is not handed out)
                return "unsure" if form == "sp" else "never"
            if form in ("sp", "csp") and a["holder"] != "sp":
                return "unsure"        # a reference- or pointer-held object cannot be handed out as shared_ptr; not settled which error
            return "exact"
        if a["t"] in ARITH and pt in ARITH:
            return "conv" if form in ("val", "cref") else "unsure"
        if a["t"] == "bool" or pt == "bool":
            return "unsure" if a["t"] in ARITH | {"bool"} and pt in ARITH | {"bool"} else "never"
        if a["t"] == "Other" and pt == "int" and conv["user_conversion"]:
            return "conv" if form in ("val", "cref") else "unsure"
        return "never"
    if pt == "str":
        if a["t"] != "str":
            return "never"
        return "never" if const_blocked else "exact"
    if pt in ("Base", "Derived", "Other", "SBase", "SDerived"):
        if a["t"] == pt:
            if const_blocked:
                return "never"
            if form in ("sp", "csp") and a["holder"] != "sp":
                return "unsure"
            if pt == "Base" and False:
                return "exact"
            return "exact"
        related_up = (a["t"], pt) in (("Derived", "Base"), ("SDerived", "SBase"))
        related_down = (a["t"], pt) == ("Base", "Derived")
        if related_up:
            if not conv["base_class"]:
                return "never"
            if const_blocked:
                return "never"
            if form in ("sp", "csp") and a["holder"] != "sp":
                return "unsure"
            return "conv"
        if related_down:
            if not conv["base_class"]:
                return "never"
            if a.get("dyn") != "Derived":
                return "never"            # a Base or Sibling object is not a Derived
            if const_blocked:
                return "never"
            if form in ("sp", "csp") and a["holder"] != "sp":
                return "unsure"
            return "conv"
        if (a["t"], pt) == ("SBase", "SDerived"):
            return "never"
        return "never"
    return "unsure"


def expected_value(arg, param):
    a = ARGS[arg]
    pt, form = param
    v = a["value"]
    if pt == "bv" or pt == "fn" or pt == "vecint":
        return None if pt == "bv" else str(v)
    if pt == "bn":
        return str(int(v)) if not isinstance(v, str) else None
    if pt in ("int", "uint", "long"):
        if isinstance(v, (int, float)) and not isinstance(v, bool):
            # the C++ conversion to the parameter type (modular for integers; double -> integer truncates, all catalogue doubles are in range)
            i = int(v)
            bits = {"int": 32, "uint": 32, "long": 64}[pt]
            i &= (1 << bits) - 1
            if pt != "uint" and i >= 1 << (bits - 1):
                i -= 1 << bits
            return str(i)
        return None
    if pt == "double":
        return str(int(float(v) * 1000)) if isinstance(v, (int, float)) and not isinstance(v, bool) else None
    if pt == "char":
        if isinstance(v, (int, float)) and not isinstance(v, bool):
            i = int(v) & 0xff
            return "c:%d" % (i - 256 if i >= 128 else i)
        return None
    if pt == "bool":
        return ("true" if v else "false") if isinstance(v, bool) else None
    if pt == "str":
        return "s:" + v
    if pt == "SBase":
        return "33"          # the SBase subobject's member, also for an SDerived argument
    return str(v)


CAT = sorted(PARAMS)


@st.composite
def call_case(draw):
    nargs = draw(st.sampled_from([0, 1, 1, 1, 1, 2, 2]))
    args = [draw(st.sampled_from(sorted(ARGS))) for _ in range(nargs)]
    # favour overloads of the right arity that have something to do with the arguments
    pool = [c for c in CAT if len(PARAMS[c]) == nargs] or CAT
    ovs = draw(st.lists(st.sampled_from(pool + pool + CAT), min_size=1, max_size=6, unique=True))
    return {"kind": "call", "overloads": ovs, "args": args, "dot": draw(st.booleans()),
            "conv": {"base_class": draw(st.booleans()), "vector_conversion": draw(st.booleans()), "user_conversion": draw(st.booleans())}}


CAST_TARGETS = {"int": ("int", "val"), "int_ref": ("int", "ref"), "cint_ref": ("int", "cref"), "int_ptr": ("int", "ptr"), "double": ("double", "val"), "bool": ("bool", "val"),
                "str": ("str", "val"), "str_ref": ("str", "ref"), "base_ref": ("Base", "ref"), "cbase_ref": ("Base", "cref"), "derived_ref": ("Derived", "ref"),
                "base_sp": ("Base", "sp"), "other_ref": ("Other", "ref"), "fn": ("fn", "val")}


@st.composite
def cast_case(draw):
    return {"kind": "cast", "arg": draw(st.sampled_from(sorted(ARGS))), "want": draw(st.sampled_from(sorted(CAST_TARGETS))),
            "conv": {"base_class": draw(st.booleans()), "vector_conversion": False, "user_conversion": draw(st.booleans())}}


def strategy():
    return st.one_of(call_case(), call_case(), call_case(), cast_case())


def check_call(c, ctx):
    nw = ctx.request(dict({"cmd": "c06", "op": "new", "overloads": c["overloads"]}, **c["conv"]))
    eid, addrs = nw["id"], nw["addresses"]
    args = c["args"]
    if c["dot"] and args:
        first = args[0]
        call = "(%s).ov(%s)" % (first, ", ".join(args[1:])) if not first[0].isalpha() else "%s.ov(%s)" % (first, ", ".join(args[1:]))
    else:
        call = "ov(%s)" % ", ".join(args)
    script = PRELUDE + call + "\n"
    try:
        r = ctx.request({"cmd": "c06", "op": "call", "id": eid, "script": script})
    finally:
        try:
            ctx.request({"cmd": "c06", "op": "del", "id": eid})
        except (Violation, hyp.Inconclusive):
            pass
    entries = r["entries"]
    ok = "exc" not in r
    # verdict per overload
    verdicts = {}
    for o in c["overloads"]:
        ps = PARAMS[o]
        if len(ps) != len(args):
            verdicts[o] = "arity"
            continue
        vs = [compat(a, p, c["conv"]) for a, p in zip(args, ps)]
        verdicts[o] = "never" if "never" in vs else "unsure" if "unsure" in vs else "exact" if all(v == "exact" for v in vs) else "conv"
    usable = [o for o, v in verdicts.items() if v in ("exact", "conv")]
    impossible = all(v in ("arity", "never") for v in verdicts.values())
    need_conv = any(v == "conv" for v in verdicts.values())
    if (len(c["overloads"]) >= 2 and usable and len(usable) < len(c["overloads"])) or need_conv or impossible:
        ctx.nontrivial((tuple(c["overloads"]), tuple(args), tuple(sorted(c["conv"].items())), c["dot"]))
    ctx.classify("call_outcome", "entered" if entries else "refused")
    ctx.sample({"overloads": c["overloads"], "call": call, "conversions": c["conv"], "verdicts": verdicts}, limit=1)
    detail = {"script": script, "overloads": c["overloads"], "conv": c["conv"], "verdicts": verdicts, "entries": entries, "exc": r.get("exc", {}).get("reason")}
    if len(entries) > 1:
        raise Violation("one call entered %d C++ functions: %s" % (len(entries), [e["id"] for e in entries]), detail)
    if ok and len(entries) != 1:
        raise Violation("the call returned normally but entered no registered overload", detail)
    if entries:
        e = entries[0]
        if verdicts.get(e["id"]) in ("never", "arity"):
            raise Violation("overload %s was entered with arguments %s it can never accept" % (e["id"], args), detail)
        # each parameter received the script value
        if verdicts.get(e["id"]) in ("exact", "conv"):
            for k, (a, p) in enumerate(zip(args, PARAMS[e["id"]])):
                want = expected_value(a, p)
                if want is not None and e["vals"][k] != want:
                    raise Violation("parameter %d of %s received %s, the script value is %s" % (k, e["id"], e["vals"][k], want), detail)
                ak = ARGS[a].get("addr")
                if ak and p[1] in ("ref", "cref", "ptr", "cptr", "sp", "csp") and ARGS[a]["t"] == p[0] and e["addrs"][k] != addrs[ak]:
                    raise Violation("parameter %d of %s is not the script's object (address differs)" % (k, e["id"]), detail)
                if ak and p[0] == "Base" and ARGS[a]["t"] == "Derived" and p[1] != "val" and e["addrs"][k] != addrs[ak]:
                    raise Violation("parameter %d of %s is not the base subobject of the script's object" % (k, e["id"]), detail)
    if impossible and entries:
        raise Violation("no registered overload is compatible with %s, yet %s was entered" % (args, entries[0]["id"]), detail)
    if impossible and ok:
        raise Violation("no registered overload is compatible with %s, yet the call succeeded" % args, detail)
    exact = [o for o, v in verdicts.items() if v == "exact"]
    if exact and "unsure" not in verdicts.values():
        if not ok:
            raise Violation("an exactly matching overload (%s) is registered but the call failed: %s" % (exact, r["exc"].get("reason")), detail)
        if entries and entries[0]["id"] not in exact:
            raise Violation("an exactly matching overload (%s) is registered but %s was chosen" % (exact, entries[0]["id"]), detail)
    if not ok and entries:
        kind = r["exc"]["kind"]
        if kind == "eval_error":
            raise Violation("the call failed with a dispatch error although overload %s had been entered" % entries[0]["id"], detail)


def check_cast(c, ctx):
    if ARGS[c["arg"]]["t"] == "Other" and CAST_TARGETS[c["want"]][0] == "int" and CAST_TARGETS[c["want"]][1] != "val":
        # asking for a *reference or pointer* to the result of a user conversion is a request for a reference to a temporary (caller's error in C++ terms)
        raise hyp.Inconclusive("reference to a converted temporary requested")
    nw = ctx.request(dict({"cmd": "c06", "op": "new", "overloads": []}, **c["conv"]))
    eid, addrs = nw["id"], nw["addresses"]
    try:
        r = ctx.request({"cmd": "c06", "op": "cast", "id": eid, "script": PRELUDE + c["arg"] + "\n", "want": c["want"]})
    finally:
        try:
            ctx.request({"cmd": "c06", "op": "del", "id": eid})
        except (Violation, hyp.Inconclusive):
            pass
    p = CAST_TARGETS[c["want"]]
    v = compat(c["arg"], p, c["conv"])
    a = ARGS[c["arg"]]
    if v == "conv" and p[0] in ARITH | {"bool"}:
        v = "unsure"     # boxed_cast<T> across arithmetic types / through a user conversion: not settled by the documentation
    if v == "conv" and a["t"] == "Other":
        v = "unsure"
    ctx.classify("cast_verdict", v)
    detail = {"arg": c["arg"], "want": c["want"], "conv": c["conv"], "reply": r}
    if v == "never":
        ctx.nontrivial(("cast", c["arg"], c["want"], tuple(sorted(c["conv"].items()))))
        if "exc" not in r:
            raise Violation("boxed_cast<%s> of %s must be refused but returned %s" % (c["want"], c["arg"], r.get("got")), detail)
        if r["exc"] != "bad_boxed_cast":
            raise Violation("boxed_cast<%s> of %s failed with %s instead of bad_boxed_cast" % (c["want"], c["arg"], r["exc"]), detail)
    elif v in ("exact", "conv"):
        if "exc" in r:
            raise Violation("boxed_cast<%s> of %s was refused (%s) although the value has that type" % (c["want"], c["arg"], r["exc"]), detail)
        want = expected_value(c["arg"], p)
        if want is not None and r.get("got") != want:
            raise Violation("boxed_cast<%s> of %s returned %s, the script value is %s" % (c["want"], c["arg"], r.get("got"), want), detail)
        ak = a.get("addr")
        if ak and "addr" in r and r["addr"] != addrs[ak]:
            raise Violation("boxed_cast<%s> of %s returned a different object (address differs)" % (c["want"], c["arg"]), detail)


def check(c, ctx):
    if c["kind"] == "call":
        check_call(c, ctx)
    else:
        check_cast(c, ctx)


def root_cause(f):
    import re
    return re.sub(r"[a-z_]+_(ref|ptr|sp|cref)|\[.*?\]|\(.*?\)", "X", f["what"])[:50]


def main(tier):
    vlib.ensure_built("runner")
    ev = vlib.Evidence(PID, tier)
    ev.cov["rule"] = RULE
    ev.assumptions = ["the compatibility table is deliberately three-valued: pairs the documentation does not settle (bool<->number, reference-held objects requested as "
                      "shared_ptr, null shared_ptr, numbers into mutable reference parameters of another arithmetic type, boxed_cast across arithmetic types) carry no claim",
                      "catalogue functions never throw themselves (that is C10's subject)"]
    n = 12000 if tier == "quick" else 150000
    failures = hyp.run("c06", ev, tier, n)
    confirmed = hyp.confirm("c06", failures, PID)
    for p, what in confirmed:
        vlib.violation(PID, p, what)
    vlib.finish(ev, len(confirmed))


def replay(path):
    vlib.ensure_built("runner")
    return hyp.replay("c06", path)
