"""C01 - parsing is total and safe.  Engines: libFuzzer (oracle inside the target, common/parse_oracle.hpp),
deterministic nesting enumerator, and (when the program generator is available) Hypothesis-mutated programs.
"""
import glob
import json
import os
import random
import resource
import shutil
import subprocess
import sys

import vlib

PID = "C01"
RULE = ("byte strings from coverage-guided fuzzing (empty corpus and /repo/unittests corpus), a deterministic nesting "
        "enumerator and grammar-generated programs with structured mutations; non-trivial = the un-optimized parser built "
        ">=1 node below the root, or rejected an input that is not pure trivia; distinct = distinct input bytes (64-bit hash)")

DICT = ["def", "fun", "var", "auto", "global", "if", "else", "for", "while", "return", "break", "continue", "try", "catch",
        "finally", "switch", "case", "default", "class", "attr", "true", "false", "Infinity", "NaN", "__LINE__", "__FILE__",
        "__FUNC__", "__CLASS__", "this", "&&", "||", "==", "!=", "<=", ">=", "<<", ">>", "+=", "-=", "*=", "/=", "%=", "<<=",
        ">>=", "&=", "|=", "^=", ":=", "++", "--", "::", "..", "${", "\\x", "\\u", "\\U", "\\0", "\\$", "/*", "*/", "//", "#!",
        "0x", "0b", "ull", "lu", "1e", "1.5e+3f", "\\\"", "'a'", "\"\"", "[1:2]", "fun[x](){}", "(", ")", "[", "]", "{", "}",
        "\r\n", "`+`", "var &", "1..3", ": int", "\\n"]


def write_dict(path):
    with open(path, "w") as f:
        for i, w in enumerate(DICT):
            esc = "".join("\\x%02x" % c if (c < 0x20 or c >= 0x7f or c in (0x22, 0x5c)) else chr(c) for c in w.encode("latin-1"))
            f.write('kw%d="%s"\n' % (i, esc))


# ---- deterministic nesting enumerator ---------------------------------------------------------
PRODUCTIONS = {
    "paren": ("(", "1", ")"),
    "bracket": ("[", "1", "]"),
    "block": ("{", "1", "}"),
    "prefix_minus": ("-", "1", ""),
    "prefix_not": ("!", "true", ""),
    "prefix_tilde": ("~", "1", ""),
    "prefix_plus": ("+", "1", ""),
    "prefix_inc": ("++", "x", ""),
    "prefix_dec": ("--", "x", ""),
    "ternary": ("true ? ", "1", " : 0"),
    "assign_chain": ("a = ", "1", ""),
    "else_if": ("if (a) { 1 } else ", "if (b) { 2 }", ""),
    "lambda": ("fun(){ ", "1", " }"),
    "def": ("def f(){ ", "1", " }"),
    "interp": ("\"${", "1", "}\""),
    "map": ("[\"k\":", "1", "]"),
    "switch_case": ("switch(1){ case(1){ ", "1", " } }"),
    "try": ("try { ", "1", " } catch(e) { }"),
    "call_arg": ("f(", "1", ")"),
    "index": ("v[", "0", "]"),
    "binary_right": ("1 + (", "1", ")"),
    "dot_call": ("a.f(", "1", ")"),
    "while": ("while (true) { ", "break", " }"),
    "for": ("for (var i = 0; i < 1; ++i) { ", "1", " }"),
    "if_paren": ("if (", "true", ") { 1 }"),
    "class": ("class C { def C() { ", "1", " } }"),
    "range": ("[", "1..2", "]"),
    "block_comment_open": ("/* ", "x", ""),
}


def nesting_cases(depths, rng, mixed_per_depth):
    cases = []
    for name, (o, core, c) in PRODUCTIONS.items():
        for n in depths:
            cases.append(("%s/%d/balanced" % (name, n), (o * n + core + c * n)))
            cases.append(("%s/%d/open" % (name, n), (o * n)))
            if c:
                cases.append(("%s/%d/close_short" % (name, n), (o * n + core + c * (n - 1))))
                cases.append(("%s/%d/close_extra" % (name, n), (o * n + core + c * (n + 1))))
    names = sorted(PRODUCTIONS)
    for n in depths:
        for k in range(mixed_per_depth):
            seq = [PRODUCTIONS[rng.choice(names)] for _ in range(min(n, 2000))]
            txt = "".join(s[0] for s in seq) + "1" + "".join(s[2] for s in reversed(seq))
            cases.append(("mixed/%d/%d" % (n, k), txt))
    return cases


def run_batch(binary, cases, tag, stack_kb=None, env=None):
    """Run inputs through a standalone oracle binary in one process; on abnormal exit return (index, stderr tail)."""
    wd = vlib.workdir("c01")
    bf = os.path.join(wd, "batch_%s.bin" % tag)
    with open(bf, "wb") as f:
        for _, txt in cases:
            b = vlib.s2b(txt)
            f.write(b"%d\n" % len(b) + b + b"\n")

    def pre():
        if stack_kb:
            resource.setrlimit(resource.RLIMIT_STACK, (stack_kb * 1024, stack_kb * 1024))

    e = dict(os.environ)
    e.update(env or {})
    e.setdefault("ASAN_OPTIONS", "detect_leaks=0:abort_on_error=0")
    r = subprocess.run([binary, "--batch", bf], stdout=subprocess.PIPE, stderr=subprocess.PIPE, env=e, preexec_fn=pre)
    err = r.stderr.decode("latin-1")
    if r.returncode == 0 and "BATCH-DONE" in err:
        return None
    last = -1
    for line in err.splitlines():
        if line.startswith("CASE "):
            last = int(line[5:])
    return last, err[-3000:]


def replay_file(binary, path, times=3, stack_kb=None):
    """True when the saved input fails every time."""
    def pre():
        if stack_kb:
            resource.setrlimit(resource.RLIMIT_STACK, (stack_kb * 1024, stack_kb * 1024))
    fails = 0
    last = ""
    for _ in range(times):
        r = subprocess.run([binary, path], stdout=subprocess.PIPE, stderr=subprocess.PIPE, preexec_fn=pre,
                           env=dict(os.environ, ASAN_OPTIONS="detect_leaks=0"))
        if r.returncode != 0:
            fails += 1
            last = r.stderr.decode("latin-1")[-2500:]
    return fails == times, last


def oracle_line(text):
    for line in text.splitlines():
        if "VERIF-ORACLE" in line or "ERROR: AddressSanitizer" in line or "runtime error" in line or "terminate called" in line:
            return line.strip()
    return text.strip().splitlines()[-1] if text.strip() else "abnormal exit"


def main(tier):
    ev = vlib.Evidence(PID, tier)
    ev.cov["rule"] = RULE
    ev.assumptions = [
        "termination is observed as 'returns within libFuzzer's per-input timeout'; timeouts/ooms/slow units are inconclusive, not violations",
        "parse() takes a std::string, so a one-byte over-read lands on the terminating NUL and is invisible to ASan",
        "token accounting (identifiers and numeric literals of the input must re-appear as syntax-tree node texts) is applied to inputs "
        "free of quote, backslash, backtick and $ characters only",
    ]
    bins = vlib.ensure_built("fuzz_parse", "parse_oracle", "parse_depth_plain")
    wd = vlib.fresh_workdir("c01")
    seed = vlib.seed()
    rng = random.Random(seed)
    viol = []

    def report(raw, what, how):
        p = vlib.save_replay(PID, {"property": PID, "what": what, "found_by": how, "input_latin1": vlib.b2s(raw)[:4000]}, raw=raw, ext="bin")
        # the input itself goes into the report line as well (a replay file left in a discarded copy of /verif is of no use)
        viol.append((p, what + "  [input, %d bytes: %r]" % (len(raw), bytes(raw[:240]))))

    # 1. regression corpus
    regress = sorted(glob.glob(os.path.join(vlib.VERIF, "corpus", PID, "regress", "*")))
    for p in regress:
        bad, txt = replay_file(bins["parse_oracle"], p, times=1)
        ev.count("evaluations")
        ev.count("regress_replayed")
        if bad:
            ok3, txt = replay_file(bins["parse_oracle"], p)
            if ok3:
                report(open(p, "rb").read(), oracle_line(txt), "regress:" + os.path.basename(p))

    # 2. nesting enumerator: ASan build (8 MiB stack) and the shipped configuration (g++ -O2) under a 1 MiB stack
    depths = [8, 64, 512, 4096] + ([100000] if tier == "thorough" else [20000])
    cases = nesting_cases(depths, rng, 6 if tier == "quick" else 40)
    for tag, binary, stack in (("asan", bins["parse_oracle"], None), ("plain1m", bins["parse_depth_plain"], 1024)):
        todo = list(cases)
        while todo:
            res = run_batch(binary, todo, tag, stack_kb=stack)
            if res is None:
                break
            idx, err = res
            if idx < 0:
                raise SystemExit("nesting batch (%s) failed before the first case: %s" % (tag, err[-500:]))
            name, txt = todo[idx]
            raw = vlib.s2b(txt)
            tmp = os.path.join(wd, "nest_case.bin")
            open(tmp, "wb").write(raw)
            ok3, txt3 = replay_file(binary, tmp, stack_kb=stack)
            if ok3:
                report(raw, "nesting case %s (%s build): %s" % (name, tag, oracle_line(txt3)), "nesting:" + tag)
            todo = todo[idx + 1:]
        ev.count("evaluations", len(cases))
        ev.count("nesting_cases_" + tag, len(cases))
    for name, txt in cases:
        ev.nontrivial(("nest", name))
    ev.sample({"kind": "nesting", "name": cases[3][0], "input_head": cases[3][1][:60]})

    # 3. coverage-guided fuzzing, oracle inside the target
    njobs = vlib.NCPU
    secs = int(os.environ.get("VERIF_FUZZ_SECS") or (45 if tier == "quick" else 600))
    dict_path = os.path.join(wd, "dict.txt")
    write_dict(dict_path)
    seeds_dir = os.path.join(wd, "seed_corpus")
    os.makedirs(seeds_dir)
    for p in sorted(glob.glob(os.path.join(vlib.REPO, "unittests", "*.chai")) + glob.glob(os.path.join(vlib.REPO, "unittests", "*.inc"))):
        if os.path.getsize(p) <= 4096:
            shutil.copy(p, seeds_dir)
    for p in regress:
        shutil.copy(p, os.path.join(seeds_dir, "regress_" + os.path.basename(p)))
    procs = []
    for j in range(njobs):
        jd = os.path.join(wd, "job%d" % j)
        os.makedirs(os.path.join(jd, "corpus"))
        args = [bins["fuzz_parse"], "-max_len=%d" % (256 if j % 4 == 0 else 4096), "-seed=%d" % (seed * 1000 + j + 1), "-max_total_time=%d" % secs,
                "-dict=" + dict_path, "-timeout=25", "-rss_limit_mb=4096", "-print_final_stats=1", "-artifact_prefix=" + jd + "/",
                os.path.join(jd, "corpus")]
        if j % 2 == 1:
            args.append(seeds_dir)  # half of the jobs start from the repository's scripts, half from nothing
        env = dict(os.environ, VERIF_STATS=os.path.join(jd, "stats.json"), VERIF_VIOLATION=os.path.join(jd, "viol.json"),
                   ASAN_OPTIONS="detect_leaks=0")
        procs.append((jd, subprocess.Popen(args, stdout=subprocess.DEVNULL, stderr=open(os.path.join(jd, "log.txt"), "w"), env=env)))
    agg = {}
    for jd, p in procs:
        p.wait()
        sp = os.path.join(jd, "stats.json")
        if os.path.exists(sp):
            try:
                st = json.load(open(sp))
            except ValueError:
                st = {}
            for k, v in st.items():
                if isinstance(v, int):
                    agg[k] = agg.get(k, 0) + v
                elif k == "depth_buckets":
                    agg[k] = [a + b for a, b in zip(agg.get(k, [0] * 5), v)]
                elif k == "reject_msgs":
                    d = agg.setdefault(k, {})
                    for m, c in v.items():
                        d[m] = d.get(m, 0) + c
                elif k == "samples":
                    for s in v[:2]:
                        ev.sample({"kind": "fuzz", "input_latin1": s})
        for art in sorted(glob.glob(os.path.join(jd, "crash-*")) + glob.glob(os.path.join(jd, "leak-*"))):
            ok3, txt3 = replay_file(bins["parse_oracle"], art)
            if ok3:
                report(open(art, "rb").read(), oracle_line(txt3), "libFuzzer:" + os.path.basename(jd))
            else:
                ev.count("unreproducible_artifacts")
        for art in glob.glob(os.path.join(jd, "timeout-*")) + glob.glob(os.path.join(jd, "oom-*")) + glob.glob(os.path.join(jd, "slow-unit-*")):
            ev.count("inconclusive_timeout_or_oom")
    ev.count("evaluations", agg.get("execs", 0))
    ev.cov["distinct_nontrivial"] = agg.get("distinct_nontrivial", 0)
    ev.cov["fuzz"] = {k: v for k, v in agg.items() if k != "reject_msgs"}
    ev.cov["fuzz"]["jobs"] = njobs
    ev.cov["fuzz"]["seconds_per_job"] = secs
    top = sorted(agg.get("reject_msgs", {}).items(), key=lambda kv: -kv[1])[:25]
    ev.cov["fuzz"]["top_reject_reasons"] = dict(top)

    # 4. grammar-generated programs with structured mutations (Hypothesis), if the generator is present
    try:
        import c01_mut
        c01_mut.run(ev, tier, bins, report)
    except ImportError:
        pass

    # de-duplicate by oracle message (count defects by root cause, keep the smallest input of each)
    seen = {}
    for p, what in viol:
        key = what.split(":")[0][:80] if "token '" in what else what[:80]
        if key not in seen or os.path.getsize(p) < os.path.getsize(seen[key][0]):
            seen[key] = (p, what)
    for p, what in seen.values():
        vlib.violation(PID, p, what)
    vlib.finish(ev, len(seen))


def replay(path):
    bins = vlib.ensure_built("parse_oracle", "parse_depth_plain")
    bad, txt = replay_file(bins["parse_oracle"], path, times=1)
    bad2, txt2 = replay_file(bins["parse_depth_plain"], path, times=1, stack_kb=1024)
    if bad or bad2:
        print("FAILS: " + oracle_line(txt if bad else txt2))
        return 1
    print("passes")
    return 0
