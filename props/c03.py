"""C03 - core language semantics match the documented model: generated programs vs the reference interpreter (model/refchai.py)."""
import json

from hypothesis import strategies as st

import hyp
import progs
import refchai
import vlib
from hyp import Violation

PID = "C03"
RULE = ("grammar- and type-directed programs (<=12 top-level statements, depth<=3) over ints/bools/strings, operators with C precedence, short-circuit, "
        "ternary, block scoping/shadowing, var copies vs references/parameters/captures, if/else-if/else, while/for/ranged-for with break/continue, "
        "switch with fall-through, functions (recursion, typed params, guards, overload sets, early return), lambdas, classes, vectors, string-keyed maps (literals with repeated keys, insertion through [], at, count, erase, size, to_string, structural copies, ranged-for over <key, value> pairs with in-place change of the value); printed with "
        "minimal parentheses and random layout; ~10% carry one injected fault. Oracle = independent reference interpreter (stdout, rec log, final "
        "value rendering, error class). non-trivial = the model executed >=3 statement kinds, >=1 call and >=1 taken branch/iteration; "
        "distinct = distinct program texts")


def strategy():
    return progs.programs()


def check(prog, ctx):
    prog = json.loads(json.dumps(prog))
    text = refchai.Printer(prog.get("layout")).program(prog)
    it = refchai.Interp(prog)
    try:
        want = it.run()
    except refchai.Discard as d:
        ctx.classify("discard", str(d))
        raise hyp.Inconclusive("discarded: " + str(d))
    except RecursionError:
        raise hyp.Inconclusive("model recursion")
    if len(it.kinds) >= 3 and it.calls >= 1 and it.branches >= 1:
        ctx.nontrivial(text)
    for k in it.kinds:
        ctx.classify("stmt_kinds", k)
    ctx.classify("outcome", want.get("exc", "value"))
    if prog.get("fault"):
        ctx.classify("fault", prog["fault"])
    ctx.sample({"program": text, "model": want}, limit=1)
    res = ctx.request({"cmd": "run", "script": text, "engines": [{"opt": True}]})["results"][0]
    got = {"out": res["out"], "rec": res["rec"]}
    if "exc" in res:
        got["exc"] = res["exc"]["kind"]
        if got["exc"] == "boxed":
            got["exc_val"] = res["exc"]["r"]
    else:
        got["res"] = res["res"]["r"]
    if got != want:
        diff = [k for k in set(got) | set(want) if got.get(k) != want.get(k)]
        raise Violation("engine and reference model disagree on %s: engine %s, model %s" % (diff, {k: got.get(k) for k in diff}, {k: want.get(k) for k in diff}),
                        {"program": text, "engine": got, "model": want, "reason": res.get("exc", {}).get("reason")})


def root_cause(f):
    return f["what"][:60]


def main(tier):
    vlib.ensure_built("runner")
    ev = vlib.Evidence(PID, tier)
    ev.cov["rule"] = RULE
    ev.assumptions = ["the reference interpreter (model/refchai.py) is written from the cheatsheet/readme semantics and calibrated on the repaired tree; constructs whose "
                      "behaviour is undocumented and surprising are kept out of the generator (see excluded_constructs)"]
    ev.cov["excluded_constructs"] = ["copying a Vector and then mutating elements through the copy (element handles are shared)", "size_t arithmetic (size() is wrapped in int())",
                                     "reading a missing Map key through [] (inserts an element without a value)", "changing Map elements through a copy of the Map (element handles are shared, as for Vector)", "assigning to a function parameter other than in the dedicated mut* functions (const-ness of temporaries passed as arguments is undocumented)", "growing a vector inside a ranged-for (iterator invalidation, recorded as a known finding under C12)", "try/catch (C10)", "eval()/use() (C04, C19)", "copying class instances"]
    n = 5000 if tier == "quick" else 70000
    failures = hyp.run("c03", ev, tier, n)
    confirmed = hyp.confirm("c03", failures, PID)
    for p, what in confirmed:
        vlib.violation(PID, p, what)
    vlib.finish(ev, len(confirmed))


def replay(path):
    vlib.ensure_built("runner")
    return hyp.replay("c03", path)
