"""C11 - objects live exactly as long as something refers to them.

Programs create, copy, store, capture, pass, return and drop instances of an instrumented C++ class (runner/c11.cpp).  At
generator-placed checkpoints the number of live instances must equal the model's count and every variable the model knows to be
referenced is touched (a touch of a destroyed instance is recorded by the registry and usually also caught by ASan); after
set_locals({}) and engine destruction only what the harness holds may be alive; nothing is destroyed twice.
"""
from hypothesis import strategies as st

import hyp
import vlib
from hyp import Violation

PID = "C11"
RULE = ("programs (<=25 steps) over an instrumented class Tracked: construct, copy (var b = a, Tracked(a), clone), reference alias, store in vectors / maps / "
        "attributes, pop/clear containers, pass by value / & / const& / * / shared_ptr / shared_ptr<const> / base class / converted temporary (int -> "
        "Tracked), return by value / shared_ptr / unique_ptr, functions whose locals die on return / by script throw / by a throwing C++ callee, block "
        "scopes, loops, closures capturing instances and loop variables called after the loop, instances handed to the C++ side (kept shared_ptr), a variable's instance replaced by C++ through shared_ptr&. "
        "Oracle: registry invariants (destroyed at most once, never touched after destruction, live count at every checkpoint == model, only "
        "harness-held instances survive the engine). non-trivial = >=1 instance crosses a frame boundary (returned, captured, stored in an outer "
        "container, converted temporary passed to C++) before a checkpoint; distinct = distinct programs")

STEP = st.one_of(
    st.fixed_dictionaries({"k": st.just("new")}),
    st.fixed_dictionaries({"k": st.just("new")}),
    st.fixed_dictionaries({"k": st.just("copy"), "how": st.sampled_from(["var", "ctor", "clone", "auto"]), "i": st.integers(0, 9)}),
    st.fixed_dictionaries({"k": st.just("ref"), "i": st.integers(0, 9)}),
    st.fixed_dictionaries({"k": st.just("push"), "i": st.integers(0, 9), "temp": st.booleans()}),
    st.fixed_dictionaries({"k": st.just("pop")}),
    st.fixed_dictionaries({"k": st.just("clear")}),
    st.fixed_dictionaries({"k": st.just("mapset"), "i": st.integers(0, 9)}),
    st.fixed_dictionaries({"k": st.just("attr"), "i": st.integers(0, 9)}),
    st.fixed_dictionaries({"k": st.just("pass"), "how": st.sampled_from(["by_value", "by_ref", "by_cref", "by_ptr", "by_cptr", "by_sp", "by_csp", "by_base"]), "i": st.integers(0, 9)}),
    st.fixed_dictionaries({"k": st.just("conv"), "how": st.sampled_from(["by_cref", "by_value"])}),
    st.fixed_dictionaries({"k": st.just("make"), "how": st.sampled_from(["make_sp", "make_val", "make_unique"])}),
    st.fixed_dictionaries({"k": st.just("keep"), "i": st.integers(0, 9)}),
    st.fixed_dictionaries({"k": st.just("frame"), "how": st.sampled_from(["local_dies", "returns_local", "throws", "callee_throws", "returns_sp", "early_return", "param_copy"]), "i": st.integers(0, 9)}),
    st.fixed_dictionaries({"k": st.just("block"), "how": st.sampled_from(["plain", "break", "continue", "nested"])}),
    st.fixed_dictionaries({"k": st.just("capture"), "i": st.integers(0, 9), "inner_scope": st.booleans()}),
    st.fixed_dictionaries({"k": st.just("loopclosure"), "ranged": st.booleans()}),
    st.fixed_dictionaries({"k": st.just("assign"), "i": st.integers(0, 9), "j": st.integers(0, 9)}),
    st.fixed_dictionaries({"k": st.just("set"), "i": st.integers(0, 9)}),
    st.fixed_dictionaries({"k": st.just("tempchain"), "form": st.integers(0, 11)}),
    st.fixed_dictionaries({"k": st.just("tempchain"), "form": st.integers(0, 11)}),
    st.fixed_dictionaries({"k": st.just("reseat")}),
    st.fixed_dictionaries({"k": st.just("chk")}),
    st.fixed_dictionaries({"k": st.just("chk")}),
)

# single statements that use a reference into a temporary: the temporary must stay alive until the statement is done
TEMPCHAINS = [
    "rec(by_cref(make_holder(P).inner))", "rec(make_holder(P).inner.get())", "rec(Holder(P).inner.get())", "rec(by_value(Holder(P).inner))",
    "rec(by_cref(Tracked(P).self()))", "rec(Tracked(P).self().get())", "rec(by_cref(pass_ref(Tracked(P))))", "rec(pass_cref(Tracked(P)).get())",
    "def gN() { pass_ref(Tracked(P)) }\nrec(by_cref(gN()))\nrec(gN().get())",
    "def gN() { return pass_cref(make_val(P)) }\nrec(gN().get() + by_value(gN()))",
    "def gN() { if (true) { pass_ref(Tracked(P)) } }\nrec(by_cref(gN()))",
    "var hN = fun() { make_holder(P).inner }\nrec(hN().get())\nrec(by_cref(hN()))",
]


def strategy():
    # the engine as users get it (default optimizer pipeline).  With optimization disabled, a reference returned out of a script function
    # into a temporary created in its body dangles (observed while calibrating, recorded in DESIGN.md); that configuration is not shipped.
    return st.fixed_dictionaries({"steps": st.lists(STEP, min_size=2, max_size=25), "opt": st.just(True)})


def build(c):
    """-> (script, expected live counts at the checkpoints, crossed_frame?, names of live Tracked variables)"""
    L = ["var vec = []", "var mp = Map()", "var ob = Dynamic_Object()"]
    objs = []          # names of top-level variables holding (or aliasing) a Tracked
    live = 0
    vec_n = 0
    n = 0
    expected = []
    crossed = False
    payload = 100

    def pick(i):
        return objs[i % len(objs)] if objs else None

    for s in c["steps"]:
        n += 1
        payload += 1
        k = s["k"]
        if k == "new":
            L.append("var t%d = Tracked(%d)" % (n, payload))
            objs.append("t%d" % n)
            live += 1
        elif k == "copy" and objs:
            src = pick(s["i"])
            form = {"var": "var c%d = %s", "auto": "auto c%d = %s", "ctor": "var c%d = Tracked(%s)", "clone": "var c%d = clone(%s)"}[s["how"]]
            L.append(form % (n, src))
            objs.append("c%d" % n)
            live += 1
        elif k == "ref" and objs:
            L.append("var &r%d = %s" % (n, pick(s["i"])))
            objs.append("r%d" % n)
        elif k == "push":
            if s["temp"] or not objs:
                L.append("vec.push_back(Tracked(%d))" % payload)
            else:
                L.append("vec.push_back(%s)" % pick(s["i"]))
            live += 1
            vec_n += 1
            crossed = True
        elif k == "pop" and vec_n:
            L.append("vec.pop_back()")
            vec_n -= 1
            live -= 1
        elif k == "clear":
            L.append("vec.clear()")
            live -= vec_n
            vec_n = 0
        elif k == "mapset" and objs:
            L.append("mp[\"k%d\"] = %s" % (n, pick(s["i"])))
            live += 1
            crossed = True
        elif k == "attr" and objs:
            L.append("ob.a%d = %s" % (n, pick(s["i"])))
            live += 1
            crossed = True
        elif k == "pass" and objs:
            # some parameter forms cannot be served by some holders (a unique_ptr-held instance as shared_ptr): a rejection is fine, a lifetime error is not
            L.append("try { rec(%s(%s)) } catch(e) { rec(\"rejected\") }" % (s["how"], pick(s["i"])))
        elif k == "conv":
            L.append("rec(%s(%d))" % (s["how"], payload))
            crossed = True
        elif k == "make":
            L.append("var m%d = %s(%d)" % (n, s["how"], payload))
            objs.append("m%d" % n)
            live += 1
            crossed = True
        elif k == "keep" and objs:
            # only instances owned through a shared_ptr can be handed over as shared_ptr: those made by Tracked(...) and make_sp are
            cand = [o for o in objs if o[0] in "tcm" and not o.startswith("m") or o.startswith("m")]
            L.append("try { keep(%s) } catch(e) { rec(\"keep-rejected\") }" % pick(s["i"]))
        elif k == "frame":
            how = s["how"]
            crossed = True
            if how == "local_dies":
                L.append("def fr%d() { var loc = Tracked(%d); var loc2 = loc; loc.touch() + loc2.touch() }" % (n, payload))
                L.append("rec(fr%d())" % n)
            elif how == "returns_local":
                L.append("def fr%d() { var loc = Tracked(%d); var other = Tracked(%d); return loc }" % (n, payload, payload + 1000))
                L.append("var f%d = fr%d()" % (n, n))
                objs.append("f%d" % n)
                live += 1
            elif how == "throws":
                L.append("def fr%d() { var loc = Tracked(%d); var v = [Tracked(%d)]; throw(loc.get()) }" % (n, payload, payload + 1000))
                L.append("try { fr%d() } catch(e) { rec(e) }" % n)
            elif how == "callee_throws":
                L.append("def fr%d() { var loc = Tracked(%d); by_cref_throw(loc); 0 }" % (n, payload))
                L.append("try { fr%d() } catch(e) { rec(\"caught\") }" % n)
                L.append("try { by_value_throw(Tracked(%d)) } catch(e) { rec(\"caught\") }" % (payload + 1000))
            elif how == "returns_sp":
                L.append("def fr%d() { var loc = make_sp(%d); return loc }" % (n, payload))
                L.append("var f%d = fr%d()" % (n, n))
                objs.append("f%d" % n)
                live += 1
            elif how == "early_return":
                L.append("def fr%d(x) { var loc = Tracked(%d); if (x > 0) { var deep = Tracked(%d); return deep.get() }; loc.get() }" % (n, payload, payload + 1000))
                L.append("rec(fr%d(1) + fr%d(0))" % (n, n))
            elif objs:
                L.append("def fr%d(p) { var mine = p; mine.set(%d); mine.get() + p.get() }" % (n, payload))
                L.append("rec(fr%d(%s))" % (n, pick(s["i"])))
        elif k == "block":
            how = s["how"]
            if how == "plain":
                L.append("{ var inner = Tracked(%d); inner.touch() }" % payload)
            elif how == "break":
                L.append("for (var i = 0; i < 3; ++i) { var li = Tracked(%d + i); if (i == 1) { break } }" % payload)
            elif how == "continue":
                L.append("for (var i = 0; i < 3; ++i) { var li = Tracked(%d + i); if (i < 2) { continue }; li.touch() }" % payload)
            else:
                L.append("{ var o1 = Tracked(%d); { var o2 = o1; { var o3 = [o2, Tracked(%d)] } }; o1.touch() }" % (payload, payload + 1000))
        elif k == "capture" and objs:
            src = pick(s["i"])
            if s["inner_scope"]:
                # the captured instance's own variable goes out of scope; the closure keeps the instance alive
                L.append("var l%d = fun() { 0 }" % n)
                L.append("{ var held = Tracked(%d); l%d = fun[held]() { held.get() } }" % (payload, n))
                live += 1
            else:
                L.append("var l%d = fun[%s]() { %s.get() }" % (n, src, src))
            L.append("rec(l%d())" % n)
            crossed = True
        elif k == "loopclosure":
            if s["ranged"]:
                L.append("var fs%d = []; var src%d = [Tracked(%d), Tracked(%d)]" % (n, n, payload, payload + 1000))
                L.append("for (e : src%d) { fs%d.push_back(fun[e]() { e.get() }) }" % (n, n))
                live += 2
            else:
                L.append("var fs%d = []" % n)
                L.append("for (var i = 0; i < 3; ++i) { fs%d.push_back(fun[i]() { i }) }" % n)
            L.append("for (g : fs%d) { rec(g()) }" % n)
            crossed = True
        elif k == "assign" and len(objs) >= 2:
            a, b = pick(s["i"]), pick(s["j"])
            if a != b:
                L.append("%s = %s" % (a, b))
        elif k == "set" and objs:
            L.append("%s.set(%d)" % (pick(s["i"]), payload))
        elif k == "tempchain":
            L.append(TEMPCHAINS[s["form"] % len(TEMPCHAINS)].replace("P", str(payload)).replace("N", str(n)))
            crossed = True
        elif k == "reseat":
            # a C++ function taking std::shared_ptr<Tracked>& replaces the instance a variable owns: the old one dies, the variable (through
            # every access path: mutable, const, copy) now means the new one
            L.append("var rs%d = Tracked(%d)" % (n, payload))
            L.append("rec(reseat(rs%d, %d))" % (n, payload + 1000))
            L.append("rs%d.set(%d); rec(rs%d.get() + by_cref(rs%d) + by_value(rs%d))" % (n, payload + 2000, n, n, n))
            L.append("var rc%d = rs%d" % (n, n))
            objs += ["rs%d" % n, "rc%d" % n]
            live += 2
            crossed = True
        elif k == "chk":
            L.append("rec(0)")      # any call: the engine releases the temporaries it saved for the previous call when the next one completes
            L.append("chk()")
            for o in objs[-6:]:
                L.append("%s.touch()" % o)
            expected.append(live)
    L.append("rec(0)")
    L.append("chk()")
    for o in objs:
        L.append("%s.touch()" % o)
    expected.append(live)
    L.append("0")
    return "\n".join(L) + "\n", expected, crossed, objs


def check(c, ctx):
    script, expected, crossed, objs = build(c)
    eid = ctx.request({"cmd": "c11", "op": "new", "opt": c["opt"]})["id"]
    fin = None
    restarts = ctx.runner.restarts
    try:
        r = ctx.request({"cmd": "c11", "op": "eval", "id": eid, "script": script})
    except Violation as v:
        v.detail["program"] = script       # the runner died on this program (sanitizer report): the engine is gone with it
        raise
    if ctx.runner.restarts == restarts:
        try:
            fin = ctx.request({"cmd": "c11", "op": "finish", "id": eid})
        except hyp.Inconclusive:
            pass
    if crossed:
        ctx.nontrivial(script)
    ctx.sample({"program": script, "expected_live_at_checkpoints": expected}, limit=1)
    reg = r["registry"]
    if "exc" in r:
        raise Violation("the program raised %s: %s" % (r["exc"]["kind"], r["exc"].get("reason") or r["exc"].get("what")), {"program": script})
    if reg["double_destroy"] or reg["touch_dead"]:
        raise Violation("lifetime violation: %s" % "; ".join(reg["events"][:4]), {"program": script})
    if reg["checkpoints"] != expected:
        raise Violation("live instances at the checkpoints are %s, the model says %s" % (reg["checkpoints"], expected), {"program": script})
    if fin is None:
        return
    for stage in ("after_set_locals", "after_engine_destroyed", "after_release"):
        g = fin[stage]
        if g["double_destroy"] or g["touch_dead"]:
            raise Violation("lifetime violation %s: %s" % (stage.replace("_", " "), "; ".join(g["events"][:4])), {"program": script})
    if not fin["live_equals_held"]:
        raise Violation("after the engine was destroyed %d instances are alive, the harness holds %d" % (fin["after_engine_destroyed"]["live"], fin["held"]), {"program": script})
    if fin["after_release"]["live"] != 0 or fin["after_release"]["constructed"] != fin["after_release"]["destroyed"]:
        raise Violation("instances leaked: constructed %d, destroyed %d" % (fin["after_release"]["constructed"], fin["after_release"]["destroyed"]), {"program": script})


def root_cause(f):
    w = f["what"]
    return "crash" if "died" in w else w[:30]


def main(tier):
    vlib.ensure_built("runner")
    ev = vlib.Evidence(PID, tier)
    ev.cov["rule"] = RULE
    ev.assumptions = ["no reference cycles are generated; no reference to an element of a temporary container, to a catch variable, or to a function's local returned by "
                      "reference is kept beyond the statement (script-author errors with C++-like meaning, outside the property's 'created on behalf of a script ... still "
                      "referred to' wording; the engine does hand out such references, see DESIGN.md)", "evaluated on the thread that owns the engine"]
    n = 4000 if tier == "quick" else 80000
    failures = hyp.run("c11", ev, tier, n)
    confirmed = hyp.confirm("c11", failures, PID)
    for p, what in confirmed:
        vlib.violation(PID, p, what)
    vlib.finish(ev, len(confirmed))


def replay(path):
    vlib.ensure_built("runner")
    return hyp.replay("c11", path)
