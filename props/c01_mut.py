"""C01 part (b): grammar-generated programs with structured mutations, through the same oracle as the fuzz target (runner command parse_oracle)."""
import json
import re

from hypothesis import strategies as st

import hyp
import progs
import refchai
from hyp import Violation

TOKEN = re.compile(r'"(?:\\.|[^"\\])*"|\'(?:\\.|[^\'\\])*\'|[A-Za-z_][A-Za-z0-9_]*|\d+(?:\.\d+)?|[-+*/%<>=!&|^]=|&&|\|\||\+\+|--|<<|>>|:=|/\*|\*/|//|\s+|.', re.S)
BRACKETS = "()[]{}"

mutation = st.fixed_dictionaries({"k": st.sampled_from(["delete", "dup", "swap", "truncate", "bracket", "byte", "crlf", "insert", "cr", "comment_open"]),
                                  "pos": st.integers(0, 400), "arg": st.integers(0, 255)})


# ---- token soup in syntactic frames: short inputs over the whole vocabulary (every keyword, marker, operator and literal shape)
VOCAB = ["def", "fun", "var", "auto", "global", "if", "else", "for", "while", "return", "break", "continue", "try", "catch", "finally", "switch", "case",
         "default", "class", "attr", "this", "true", "false", "Infinity", "NaN", "__LINE__", "__FILE__", "__FUNC__", "__CLASS__", "_",
         "+", "-", "*", "/", "%", "<<", ">>", "&", "|", "^", "~", "!", "&&", "||", "==", "!=", "<", ">", "<=", ">=", "=", ":=", "+=", "-=", "*=", "/=", "%=",
         "<<=", ">>=", "&=", "|=", "^=", "++", "--", "?", ":", "::", ".", "..", ",", ";", "\n", "(", ")", "[", "]", "{", "}", "&", "`+`", "`<`",
         "0", "1", "2", "7u", "3l", "5ull", "0x1F", "0b101", "017", "08", "2147483648", "18446744073709551615", "1.5", "2.0f", "3.0l", ".5", "1.", "1e3", "1.5e-3",
         "1e", "0x", "'a'", "'\\n'", "'ab'", "''", "\"s\"", "\"\"", "\"a${1}b\"", "\"${\"", "\"\\x41\\u00e9\"", "\"\\q\"", "\"", "x", "y", "f", "C", "int", "string",
         "x.y", "f()", "f(1)", "x[0]", "[1, 2]", "[\"k\": 1]", "[1..3]", "fun(a) { a }", "fun[x]() { x }", ": int", "#c\n", "//c\n", "/*c*/", "/*"]
VOCAB += ["__LINE__", "__FILE__", "__FUNC__", "__CLASS__"] * 3 + ["1.5", "2.0f", "%", "<<", "&", "|", "^", ">>"] * 2      # rarer context-sensitive words and float x integer-only operators
FRAMES = ["@", "@", "@\n@", "def f(@) { @ }", "def f(@) { @ }\n@", "def C::m(@) { @ }", "class C { @ }", "class C { def C() { @ } def m(@) { @ } var a; @ }", "fun(@) { @ }",
          "fun[@](@) { @ }", "for (@; @; @) { @ }", "for (@ : @) { @ }", "while (@) { @ }", "if (@) { @ } else { @ }", "if (@; @) { @ }", "try { @ } catch(@) { @ } finally { @ }",
          "switch (@) { case (@) { @ } default { @ } }", "[@, @]", "[@: @]", "\"${@}\"", "f(@, @)", "x.f(@)", "x[@]", "var x = @", "auto x := @", "def f(x) : @ { @ }", "return @",
          "@ ? @ : @", "(@)", "{ @ }", "def `@`(a, b) { @ }", "global @"]
soup = st.fixed_dictionaries({"frame": st.sampled_from(FRAMES), "fill": st.lists(st.lists(st.sampled_from(VOCAB), max_size=3), min_size=4, max_size=4),
                              "glue": st.sampled_from([" ", " ", " ", ""])})


# ---- constant expressions over every literal kind and operator (what the parse-time folding passes work on), in a few frames
LEAVES = ["0", "1", "2", "7u", "3l", "5ull", "0x1F", "0b11", "017", "1.5", "2.0f", "3.0l", "1e3", "true", "false", "'a'", "\"s\"", "NaN", "Infinity", "2147483647",
          "9223372036854775807", "18446744073709551615", "x"]
BINOPS = ["+", "-", "*", "/", "%", "<<", ">>", "&", "|", "^", "&&", "||", "==", "!=", "<", "<=", ">", ">="]
constexpr = st.recursive(st.sampled_from(LEAVES), lambda ch: st.one_of(
    st.tuples(ch, st.sampled_from(BINOPS), ch).map(lambda t: "%s %s %s" % t), st.tuples(ch, st.sampled_from(BINOPS), ch).map(lambda t: "%s %s %s" % t),
    st.tuples(st.sampled_from(["-", "+", "!", "~"]), ch).map(lambda t: "%s%s" % t), ch.map(lambda e: "(%s)" % e)), max_leaves=5)
CFRAMES = ["@", "var v = @", "def f() { @ }", "def f(x) { x + @ }", "f(@)", "[@, @]", "if (@) { 1 }", "\"${@}\"", "for (var i = 0; i < @; ++i) { }", "switch (@) { case (@) { } }", "x = @"]
folded = st.fixed_dictionaries({"cframe": st.sampled_from(CFRAMES), "exprs": st.lists(constexpr, min_size=2, max_size=2)})


def soup_text(c):
    if "cframe" in c:
        parts = c["cframe"].split("@")
        return parts[0] + "".join(c["exprs"][i % 2] + p_ for i, p_ in enumerate(parts[1:]))
    parts = c["frame"].split("@")
    out = parts[0]
    for i, p_ in enumerate(parts[1:]):
        out += c["glue"].join(c["fill"][i % len(c["fill"])]) + p_
    return out


def strategy():
    return st.one_of(st.fixed_dictionaries({"prog": progs.programs(with_faults=False), "muts": st.lists(mutation, min_size=0, max_size=4),
                                            "splice": st.one_of(st.none(), st.integers(0, 400))}),
                     soup, soup, folded)


INSERTS = [")", "]", "}", "(", "[", "{", "\"", "'", "\\", "${", "/*", "*/", "//", "#", "0x", "1.5e", "08", "..", "::", ":=", "`", "\x00", "\xff", "\r", ";;", ",", "def", "fun", "class", "else", "catch", "\\U"]


def mutate(text, muts, splice):
    toks = TOKEN.findall(text)
    for m in muts:
        if not toks:
            break
        i = m["pos"] % len(toks)
        k = m["k"]
        if k == "delete":
            del toks[i]
        elif k == "dup":
            toks.insert(i, toks[i])
        elif k == "swap" and i + 1 < len(toks):
            toks[i], toks[i + 1] = toks[i + 1], toks[i]
        elif k == "truncate":
            toks = toks[:i]
        elif k == "bracket":
            js = [j for j, t in enumerate(toks) if t in BRACKETS]
            if js:
                j = js[m["pos"] % len(js)]
                toks[j] = BRACKETS[m["arg"] % len(BRACKETS)]
        elif k == "byte":
            t = toks[i]
            if t:
                p = m["arg"] % len(t)
                toks[i] = t[:p] + chr(m["arg"]) + t[p + 1:]
        elif k == "crlf":
            toks = [t.replace("\n", "\r\n") for t in toks]
        elif k == "cr":
            toks[i] = toks[i].replace("\n", "\r") if "\n" in toks[i] else toks[i] + "\r"
        elif k == "insert":
            toks.insert(i, INSERTS[m["arg"] % len(INSERTS)])
        elif k == "comment_open":
            toks.insert(i, "/*")
    out = "".join(toks)
    if splice is not None and out:
        p = splice % len(out)
        out = out[p:] + out[:p]
    return out


def check_soup(c, ctx):
    inp = soup_text(c)
    try:
        r = ctx.request({"cmd": "parse_oracle", "input": inp})
    except Violation as v:
        v.detail = dict(getattr(v, "detail", None) or {}, input=inp)
        raise
    ctx.classify("constant_expression_outcome" if "cframe" in c else "soup_outcome", r["outcome"])
    if r["nontrivial"]:
        ctx.nontrivial(inp)
    ctx.sample({"input": inp[:300], "outcome": r["outcome"]}, limit=3)
    if r["violation"]:
        raise Violation("parse oracle: " + r["violation"], {"input": inp})


def check(c, ctx):
    if "frame" in c or "cframe" in c:
        return check_soup(c, ctx)
    prog = json.loads(json.dumps(c["prog"]))
    text = refchai.Printer(prog.get("layout")).program(prog)
    inp = mutate(text, c["muts"], c["splice"])
    truncated = len(inp) > 6000
    if truncated:
        inp = inp[:6000]
    try:
        r = ctx.request({"cmd": "parse_oracle", "input": inp})
    except Violation as v:            # the process died: the input is the replay
        v.detail = dict(getattr(v, "detail", None) or {}, input=inp)
        raise
    ctx.classify("mutated_outcome", r["outcome"] + ("" if c["muts"] or c["splice"] is not None else "/unmutated"))
    if r["nontrivial"]:
        ctx.nontrivial(inp)
    ctx.sample({"input": inp[:300], "outcome": r["outcome"]}, limit=1)
    if not c["muts"] and c["splice"] is None and not truncated and r["outcome"] != "file":
        raise Violation("a well-formed generated program was not accepted: %s" % r["error"], {"input": inp})
    if r["violation"]:
        raise Violation("parse oracle: " + r["violation"], {"input": inp})


def root_cause(f):
    return f["what"][:50]


def run(ev, tier, bins, report):
    import vlib
    vlib.ensure_built("runner")
    n = 4000 if tier == "quick" else 100000
    sub = vlib.Evidence("C01", tier)
    failures = hyp.run("c01_mut", sub, tier, n)
    ev.cov["mutated_programs"] = {k: v for k, v in sub.cov.items() if k not in ("rule", "samples")}
    ev.count("evaluations", sub.cov.get("evaluations", 0))
    ev.cov["distinct_nontrivial"] = ev.cov.get("distinct_nontrivial", 0) + sub.cov.get("distinct_nontrivial", 0)
    for s in sub.cov.get("samples", [])[:2]:
        ev.sample({"kind": "mutated program", "input_head": s.get("input", "")[:200], "outcome": s.get("outcome")})
    for p, what in hyp.confirm("c01_mut", failures, "C01"):
        inp = json.load(open(p))["detail"].get("input", "") if json.load(open(p)).get("detail") else ""
        report(vlib.s2b(inp), what, "hypothesis-mutation")
