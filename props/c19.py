"""C19 - eval_file(path) == eval(bytes of the file minus one leading BOM); use() evaluates once, searching use paths in order."""
import os
import shutil

from hypothesis import strategies as st

import hyp
import runner_client
import vlib
from hyp import Violation

PID = "C19"
RULE = ("(a) file contents built from program fragments, of every length from 0 bytes, with/without BOM and partial BOMs, CRLF, shebang line, trailing "
        "NULs, non-ASCII strings: eval_file (C++ API and script function) vs eval of the same bytes minus one leading BOM on a twin engine (result, "
        "output, exception class; missing file => file_not_found_error). (b) histories of use()/eval_file() over <=4 files in <=3 directories and "
        "use-path lists, nested use, missing and throwing files, vs a set-of-used-paths model. non-trivial = file shorter than 4 bytes, or with "
        "BOM/shebang/CRLF/NUL, or a history with a repeated use; distinct = distinct file contents / histories")

BOM = "\xef\xbb\xbf"
FRAGS = ["1", "x", "1+1", "\"s\"", "var a = 4\n", "a", "print(7)\n", "print(\"\xe9\")\n", "rec(3)\n", "\n", "\r\n", " ", "\t", ";", "// c\n", "/* c */", "'c'",
         "def f() { 5 }\n", "f()", "throw(9)\n", "undefined_name", ")", "\"unterminated", "\x00", "\x00\x00", "[1,2]", "true", "12", "2 *"]


@st.composite
def file_case(draw):
    prefix = draw(st.sampled_from(["", "", "", BOM, BOM, "\xef", "\xef\xbb", BOM + BOM, "#!/usr/bin/chai\n", "#!x", BOM + "#!chai\n", "\xbb\xbf"]))
    body = "".join(draw(st.lists(st.sampled_from(FRAGS), max_size=5)))
    body = body[:draw(st.integers(0, 40))] if draw(st.booleans()) else body
    crlf = draw(st.booleans())
    if crlf:
        body = body.replace("\r\n", "\n").replace("\n", "\r\n")
    return {"kind": "file", "content": prefix + body, "via": draw(st.sampled_from(["cpp", "script"]))}


FILES = ["a.chai", "b.chai", "c.chai", "d.chai"]
DIRS = ["d0/", "d1/", "d2/", "d0/in/"]        # one use path extends another: "in/a.chai" under d0/ and "a.chai" under d0/in/ are the same file
NAMES = FILES + ["missing.chai", "in/a.chai", "in/b.chai"]
BODIES = ["rec(\"{n}\")", "rec(\"{n}\"); use(\"b.chai\")", "rec(\"{n}\"); use(\"c.chai\"); rec(\"{n}-after\")", "rec(\"{n}\"); use(\"missing.chai\")",
          "rec(\"{n}\"); throw(3)", "rec(\"{n}\"); use(\"d.chai\")", "rec(\"{n}\"); eval_file(\"c.chai\")", "1 +"]


@st.composite
def history_case(draw):
    paths = draw(st.lists(st.sampled_from(DIRS), min_size=1, max_size=3, unique=True))
    layout = {}
    for d in DIRS:
        for f in FILES:
            if draw(st.integers(0, 2)) == 0:
                layout[d + f] = draw(st.integers(0, len(BODIES) - 1))
    ops = draw(st.lists(st.tuples(st.sampled_from(["use", "use", "use_script", "eval_file", "eval_file_script"]), st.sampled_from(NAMES),
                                  st.sampled_from(DIRS)), min_size=1, max_size=8))
    return {"kind": "history", "paths": paths, "layout": layout, "ops": [list(o) for o in ops]}


@st.composite
def overlapping_case(draw):
    """the same file reachable under two names: use paths d0/ and d0/in/ (in this order or the other), `in/x` and `x`, both files present"""
    c = draw(history_case())
    b = draw(st.sampled_from(["a.chai", "b.chai"]))
    c["paths"] = draw(st.sampled_from([["d0/", "d0/in/"], ["d0/", "d0/in/"], ["d0/in/", "d0/"], ["d1/", "d0/", "d0/in/"], ["d0/", "d2/", "d0/in/"]]))
    c["layout"]["d0/" + b] = draw(st.sampled_from([0, 0, 5]))
    c["layout"]["d0/in/" + b] = draw(st.sampled_from([0, 0, 2]))
    kinds = ["use", "use_script"]
    first, second = draw(st.permutations(["in/" + b, b]))
    extra = c["ops"][:3]
    c["ops"] = extra[:1] + [[draw(st.sampled_from(kinds)), first, "d0/"]] + extra[1:2] + [[draw(st.sampled_from(kinds)), second, "d0/"]] + extra[2:] + [["use", first, "d0/"]]
    return c


def strategy():
    return st.one_of(file_case(), file_case(), history_case(), overlapping_case())


def obs(r):
    o = {"out": r.get("out", ""), "rec": r.get("rec")}
    if "exc" in r:
        o["exc"] = r["exc"]["kind"]
        if r["exc"]["kind"] == "boxed":
            o["val"] = r["exc"]["r"]
    else:
        o["res"] = r["res"]["r"]
    return o


def workroot(ctx):
    d = getattr(ctx, "_c19dir", None)
    if d is None:
        d = vlib.workdir("c19_%d_%d" % (os.getpid(), ctx.idx))
        ctx._c19dir = d
    return d


def check_file(c, ctx):
    content = c["content"]
    raw = vlib.s2b(content)
    root = workroot(ctx)
    path = os.path.join(root, "f.chai")
    with open(path, "wb") as f:
        f.write(raw)
    stripped = content[3:] if content.startswith(BOM) else content
    if len(raw) < 4 or content.startswith(BOM) or "\r\n" in content or content.startswith("#!") or "\x00" in content or content[:1] in "\xef\xbb":
        ctx.nontrivial(("file", content))
    ctx.classify("file_len", "len<4" if len(raw) < 4 else "len>=4")
    ctx.sample({"file_bytes_latin1": content[:80], "via": c["via"]}, limit=2)
    a = ctx.request({"cmd": "new", "opt": True})["id"]
    b = ctx.request({"cmd": "new", "opt": True})["id"]
    try:
        if c["via"] == "cpp":
            ra = ctx.request({"cmd": "eval_file", "id": a, "path": path})
        else:
            ra = ctx.request({"cmd": "eval", "id": a, "script": "eval_file(\"%s\")" % path})
        if c["via"] == "cpp":
            rb = ctx.request({"cmd": "eval", "id": b, "script": stripped, "fname": path})
        else:   # the script-level twin: eval() of a string holding the same bytes
            rb = ctx.request({"cmd": "eval", "id": b, "script": "eval(c19_src)", "set_str": {"c19_src": stripped}})
        oa, ob = obs(ra), obs(rb)
        if oa != ob:
            raise Violation("eval_file of a %d-byte file %r gives %s, eval of its bytes gives %s" % (len(raw), content[:60], oa, ob), {"content": content})
        # a missing file
        rm = ctx.request({"cmd": "eval_file", "id": a, "path": os.path.join(root, "nope.chai")})
        if rm.get("exc", {}).get("kind") != "file_not_found_error":
            raise Violation("eval_file of a missing file did not raise file_not_found_error: %s" % (rm.get("exc") or rm.get("res")), {})
    finally:
        for e in (a, b):
            try:
                ctx.request({"cmd": "del", "id": e})
            except (Violation, hyp.Inconclusive):
                pass


class Model:
    """reference semantics of use()/eval_file() over a file layout; evaluates BODIES symbolically"""
    def __init__(self, root, paths, layout):
        self.root, self.paths, self.layout = root, paths, layout
        self.used = set()
        self.rec = []

    def run_body(self, full):
        """-> None, or an exception descriptor"""
        rel = full[len(self.root):]
        d, n = rel[:3], rel[3:]
        b = self.layout[rel]
        self.rec.append('str:"%s"' % n)
        if b == 0:
            return None
        if b in (1, 2, 3, 5):
            target = {1: "b.chai", 2: "c.chai", 3: "missing.chai", 5: "d.chai"}[b]
            e = self.use(target)
            if e is not None:
                return e
            if b == 2:
                self.rec.append('str:"%s-after"' % n)
            return None
        if b == 4:
            return ("boxed", "i32:3")
        if b == 6:
            return self.eval_file_search("c.chai")
        if b == 7:
            self.rec.pop()   # a parse error: nothing of the file is evaluated
            return ("eval_error", None)
        raise AssertionError(b)

    def eval_file(self, full):
        rel = full[len(self.root):]
        if rel not in self.layout:
            return ("file_not_found_error", full)
        return self.run_body(full)

    def eval_file_search(self, name):
        """the script-level eval_file(): first use-path that has the file, evaluated every time"""
        for p in self.paths:
            if (p + name) in self.layout:
                if getattr(self, "depth", 0) > 6:
                    raise RecursionError()
                self.depth = getattr(self, "depth", 0) + 1
                try:
                    e = self.run_body(self.root + p + name)
                finally:
                    self.depth -= 1
                if e is not None and e[0] == "file_not_found_error" and e[1] == self.root + p + name:
                    continue
                if e is not None and e[0] == "eval_error":
                    # documented behaviour of the script-level function: an eval_error of the evaluated file is re-thrown boxed
                    return ("boxed", "obj<N10chaiscript9exception10eval_errorE>")
                return e
        return ("file_not_found_error", name)

    def use(self, name):
        for p in self.paths:
            full = self.root + p + name
            if full in self.used:
                return None
            if (p + name) in self.layout:
                # guard against unbounded mutual recursion in the model: the engine recurses too (and overflows); such layouts are skipped
                if getattr(self, "depth", 0) > 6:
                    raise RecursionError()
                self.depth = getattr(self, "depth", 0) + 1
                try:
                    e = self.run_body(full)
                finally:
                    self.depth -= 1
                if e is not None:
                    if e[0] == "file_not_found_error" and e[1] == full:
                        continue
                    return e
                self.used.add(full)
                return None
        return ("file_not_found_error", name)


def check_history(c, ctx):
    root = workroot(ctx) + "/h/"
    shutil.rmtree(root, ignore_errors=True)
    for d in DIRS:
        os.makedirs(root + d)
    for rel, b in c["layout"].items():
        d, n = rel[:3], rel[3:]
        with open(root + rel, "w") as f:
            f.write(BODIES[b].replace("{n}", n).replace("{dir}", root + d))
    M = Model(root, c["paths"], c["layout"])
    eid = ctx.request({"cmd": "new", "opt": True, "usepaths": [root + p for p in c["paths"]]})["id"]
    seen_use = set()
    repeated = False
    try:
        for k, (op, name, d) in enumerate(c["ops"]):
            try:
                if op in ("use", "use_script"):
                    repeated = repeated or name in seen_use
                    seen_use.add(name)
                    exp = M.use(name)
                elif op == "eval_file":
                    exp = M.eval_file(root + d + name)
                else:
                    exp = M.eval_file_search(name)
            except RecursionError:
                raise hyp.Inconclusive("mutually recursive use layout")
            if op == "use":
                r = ctx.request({"cmd": "use", "id": eid, "path": name})
            elif op == "use_script":
                r = ctx.request({"cmd": "eval", "id": eid, "script": "use(\"%s\")" % name})
            elif op == "eval_file":
                r = ctx.request({"cmd": "eval_file", "id": eid, "path": root + d + name})
            else:
                r = ctx.request({"cmd": "eval", "id": eid, "script": "eval_file(\"%s\")" % name})
            got = None
            if "exc" in r:
                k_ = r["exc"]["kind"]
                got = (k_, r["exc"].get("r")) if k_ == "boxed" else (k_, None)
            want = None if exp is None else ((exp[0], exp[1]) if exp[0] == "boxed" else (exp[0], None))
            if got != want:
                raise Violation("step %d %s(%s): raised %s, model says %s (use paths %s)" % (k, op, name, got, want, c["paths"]), {"layout": c["layout"]})
            if exp is not None and exp[0] == "file_not_found_error" and not r["exc"].get("what", "").endswith(exp[1]):
                raise Violation("step %d %s(%s): file_not_found_error names '%s', expected the failing file '%s'" % (k, op, name, r["exc"].get("what"), exp[1]), {})
            if r["rec"] != M.rec:
                raise Violation("step %d %s(%s): files evaluated so far %s, model says %s (use paths %s)" % (k, op, name, r["rec"], M.rec, c["paths"]), {"layout": c["layout"]})
        if repeated:
            ctx.nontrivial(("hist", repr(c)))
        ctx.classify("history", "repeated_use" if repeated else "no_repeat")
        ctx.sample({"use_paths": c["paths"], "files": sorted(c["layout"]), "ops": c["ops"]}, limit=1)
    finally:
        try:
            ctx.request({"cmd": "del", "id": eid})
        except (Violation, hyp.Inconclusive):
            pass


def check(c, ctx):
    if c["kind"] == "file":
        check_file(c, ctx)
    else:
        check_history(c, ctx)


def root_cause(f):
    return f["case"]["kind"] + f["what"][:20]


def main(tier):
    vlib.ensure_built("runner")
    ev = vlib.Evidence(PID, tier)
    ev.cov["rule"] = RULE
    ev.assumptions = ["files live under /verif/.build/work; the use() model follows the documented search order (first use-path that has the file, each resolved path once)"]
    n = 4800 if tier == "quick" else 80000
    failures = hyp.run("c19", ev, tier, n)
    confirmed = hyp.confirm("c19", failures, PID)
    for p, what in confirmed:
        vlib.violation(PID, p, what)
    vlib.finish(ev, len(confirmed))


def replay(path):
    vlib.ensure_built("runner")
    return hyp.replay("c19", path)
