"""C17 - prelude algorithms compute what their names say (Hypothesis + runner, Python functional specifications)."""
from hypothesis import strategies as st

import hyp
import vlib
from hyp import Violation

PID = "C17"
RULE = ("(function, input container(s) of length 0..6 over small ints / short strings / chars / map entries, callback from a fixed menu, "
        "numeric argument from {-2,-1,0,1,len-1,len,len+1,100}); oracle = Python functional specification of the result, the callback "
        "trace (one call per element in order, short-circuit where specified), inputs unchanged afterwards. "
        "non-trivial = empty or single-element input, numeric argument <=0 or >=len, short-circuiting callback, negative operand for even/odd; "
        "distinct = distinct (function, inputs, callback, argument) tuples")

NPOS = 18446744073709551615


def q(s):
    o = '"'
    for c in s.encode("latin-1"):
        if c in (0x22, 0x5c):
            o += "\\" + chr(c)
        elif c < 0x20 or c >= 0x7f:
            o += "\\u%04x" % c
        else:
            o += chr(c)
    return o + '"'


def r_int(x):
    return "i32:%d" % x


def r_str(s):
    return "str:" + q(s)


def r_bool(b):
    return "bool:true" if b else "bool:false"


def r_val(x):
    if isinstance(x, bool):
        return r_bool(x)
    if isinstance(x, int):
        return r_int(x)
    if isinstance(x, float):
        return "f64:%.17g" % x
    if isinstance(x, str):
        return r_str(x)
    if isinstance(x, Ch):
        return "char:%d" % ord(x.c)
    if isinstance(x, list):
        return "[" + ", ".join(r_val(e) for e in x) + "]"
    raise TypeError(x)


class Ch:
    def __init__(self, c):
        self.c = c


def lit(x):
    """ChaiScript source for a value"""
    if isinstance(x, bool):
        return "true" if x else "false"
    if isinstance(x, int):
        return str(x) if x >= 0 else "(%d)" % x
    if isinstance(x, str):
        return '"' + "".join({"\t": "\\t", "\n": "\\n", "\r": "\\r"}.get(c, c) for c in x) + '"'
    if isinstance(x, list):
        return "[" + ", ".join(lit(e) for e in x) + "]"
    raise TypeError(x)


def cdiv(a, b):
    qv = abs(a) // abs(b)
    return qv if (a >= 0) == (b >= 0) else -qv


def cmod(a, b):
    return a - cdiv(a, b) * b


# callback menus: name -> (source with rec, python function)
PREDS = {
    "pos": ("fun(x){ rec(x); x > 0 }", lambda x: x > 0),
    "even": ("fun(x){ rec(x); x % 2 == 0 }", lambda x: cmod(x, 2) == 0),
    "lt3": ("fun(x){ rec(x); x < 3 }", lambda x: x < 3),
    "true": ("fun(x){ rec(x); true }", lambda x: True),
    "false": ("fun(x){ rec(x); false }", lambda x: False),
    "eq2": ("fun(x){ rec(x); x == 2 }", lambda x: x == 2),
}
SPREDS = {
    "nonempty": ("fun(s){ rec(s); s.size() > 0 }", lambda s: len(s) > 0),
    "isa": ("fun(s){ rec(s); s == \"a\" }", lambda s: s == "a"),
    "true": ("fun(s){ rec(s); true }", lambda s: True),
    "false": ("fun(s){ rec(s); false }", lambda s: False),
}
MAPS = {
    "dbl": ("fun(x){ rec(x); x * 2 }", lambda x: x * 2),
    "inc": ("fun(x){ rec(x); x + 1 }", lambda x: x + 1),
    "neg": ("fun(x){ rec(x); -x }", lambda x: -x),
    "str": ("fun(x){ rec(x); to_string(x) }", lambda x: str(x)),
    "const": ("fun(x){ rec(x); 7 }", lambda x: 7),
}
SMAPS = {
    "dup": ("fun(s){ rec(s); s + s }", lambda s: s + s),
    "len": ("fun(s){ rec(s); int(s.size()) }", lambda s: len(s)),
}
BINS = {
    "add": ("fun(a, b){ rec(a); rec(b); a + b }", lambda a, b: a + b),
    "sub": ("fun(a, b){ rec(a); rec(b); a - b }", lambda a, b: a - b),
    "shift": ("fun(a, b){ rec(a); rec(b); a * 3 + b }", lambda a, b: a * 3 + b),
    "first": ("fun(a, b){ rec(a); rec(b); a }", lambda a, b: a),
    "second": ("fun(a, b){ rec(a); rec(b); b }", lambda a, b: b),
}

ints = st.lists(st.integers(-9, 9), min_size=0, max_size=6)
strs = st.lists(st.sampled_from(["", "a", "b", "ab", "ba", " a", "xyz"]), min_size=0, max_size=5)


def num_arg(n):
    return st.sampled_from(sorted(set([-2, -1, 0, 1, n - 1, n, n + 1, 100])))


@st.composite
def _case(draw):
    fam = draw(st.sampled_from([
        "for_each", "map", "filter", "foldl", "reduce", "sum", "product", "any_of", "all_of", "contains", "contains3", "find", "take", "drop",
        "take_while", "drop_while", "zip", "zip_with", "concat", "join", "reverse", "retro", "generate_range", "range_lit", "min", "max",
        "even", "odd", "trim", "strfind", "to_string", "smap", "sfilter", "str_container", "map_container", "retro_retro", "find3"]))
    c = {"fn": fam}
    if fam in ("for_each", "sum", "product", "reverse", "retro", "retro_retro"):
        c["v"] = draw(ints)
    elif fam == "map":
        c["v"] = draw(ints)
        c["cb"] = draw(st.sampled_from(sorted(MAPS)))
    elif fam in ("filter", "any_of", "all_of", "take_while", "drop_while"):
        c["v"] = draw(ints)
        c["cb"] = draw(st.sampled_from(sorted(PREDS)))
    elif fam in ("foldl",):
        c["v"] = draw(ints)
        c["cb"] = draw(st.sampled_from(sorted(BINS)))
        c["z"] = draw(st.integers(-3, 3))
    elif fam == "reduce":
        c["v"] = draw(ints)
        c["cb"] = draw(st.sampled_from(sorted(BINS)))
    elif fam in ("contains", "find"):
        c["v"] = draw(ints)
        c["x"] = draw(st.integers(-9, 9)) if not c["v"] or draw(st.booleans()) else draw(st.sampled_from(c["v"]))
    elif fam in ("contains3", "find3"):
        c["v"] = draw(ints)
        c["x"] = draw(st.integers(-9, 9))
    elif fam in ("take", "drop"):
        c["v"] = draw(ints)
        c["n"] = draw(num_arg(len(c["v"])))
    elif fam in ("zip", "concat"):
        c["v"] = draw(ints)
        c["w"] = draw(ints)
    elif fam == "zip_with":
        c["v"] = draw(ints)
        c["w"] = draw(ints)
        c["cb"] = draw(st.sampled_from(sorted(BINS)))
    elif fam == "join":
        c["v"] = draw(st.one_of(ints, strs))
        c["d"] = draw(st.sampled_from(["", ",", ", ", "--"]))
    elif fam in ("generate_range", "range_lit"):
        c["a"] = draw(st.integers(-4, 6))
        c["b"] = draw(st.integers(-4, 6))
    elif fam in ("min", "max"):
        c["a"] = draw(st.integers(-9, 9))
        c["b"] = draw(st.integers(-9, 9))
    elif fam in ("even", "odd"):
        c["a"] = draw(st.integers(-9, 9))
    elif fam == "trim":
        c["which"] = draw(st.sampled_from(["trim", "ltrim", "rtrim"]))
        c["s"] = draw(st.text(alphabet=" \t\r\nab", max_size=8))
    elif fam == "strfind":
        c["which"] = draw(st.sampled_from(["find", "rfind", "find_first_of", "find_last_of", "find_first_not_of", "find_last_not_of"]))
        c["s"] = draw(st.text(alphabet="abc", max_size=7))
        c["sub"] = draw(st.text(alphabet="abc", max_size=3))
    elif fam == "to_string":
        c["kind"] = draw(st.sampled_from(["ints", "strs", "nested", "pair", "map", "empty"]))
        c["v"] = draw(ints)
        c["w"] = draw(strs)
    elif fam == "smap":
        c["v"] = draw(strs)
        c["cb"] = draw(st.sampled_from(sorted(SMAPS)))
    elif fam == "sfilter":
        c["v"] = draw(strs)
        c["cb"] = draw(st.sampled_from(sorted(SPREDS)))
    elif fam == "str_container":
        c["which"] = draw(st.sampled_from(["take", "drop", "reverse", "filter", "concat", "for_each"]))
        c["s"] = draw(st.text(alphabet="abc ", max_size=6))
        c["n"] = draw(num_arg(len(c["s"])))
    elif fam == "map_container":
        c["keys"] = draw(st.lists(st.sampled_from(["a", "b", "c", "d"]), unique=True, max_size=4))
        c["vals"] = draw(st.lists(st.integers(-9, 9), min_size=4, max_size=4))
        c["which"] = draw(st.sampled_from(["for_each", "foldl"]))
    return c


def strategy():
    return _case()


def build(c):
    """-> (script, expected rec list or None-if-error expected, nontrivial?)"""
    fn = c["fn"]
    v = c.get("v")
    pre = ""
    exp = []
    nt = False
    err = False
    body = None           # expression producing res
    alias_probe = False   # result is a fresh vector: mutate it, input must stay intact
    inputs = []           # (name, python value) of input containers to re-check
    if v is not None:
        pre += "var v = %s;\n" % lit(v)
        inputs.append(("v", v))
        nt = nt or len(v) <= 1
    if "w" in c and fn in ("zip", "zip_with", "concat"):
        pre += "var w = %s;\n" % lit(c["w"])
        inputs.append(("w", c["w"]))
        nt = nt or len(c["w"]) <= 1 or len(c["w"]) != len(v)

    if fn == "for_each":
        pre += "for_each(v, fun(x){ rec(x) });\n"
        body = "0"
        exp += [r_int(x) for x in v] + [r_int(0)]
    elif fn == "map":
        src, f = MAPS[c["cb"]]
        body = "map(v, %s)" % src
        exp += [r_int(x) for x in v] + [r_val([f(x) for x in v])]
        alias_probe = True
    elif fn == "smap":
        src, f = SMAPS[c["cb"]]
        body = "map(v, %s)" % src
        exp += [r_str(x) for x in v] + [r_val([f(x) for x in v])]
    elif fn in ("filter", "sfilter"):
        src, f = (PREDS if fn == "filter" else SPREDS)[c["cb"]]
        body = "filter(v, %s)" % src
        exp += [r_val(x) for x in v] + [r_val([x for x in v if f(x)])]
        alias_probe = fn == "filter"
    elif fn == "foldl":
        src, f = BINS[c["cb"]]
        body = "foldl(v, %s, %s)" % (src, lit(c["z"]))
        acc = c["z"]
        for x in v:
            exp += [r_int(x), r_int(acc)]      # documented order: func(element, accumulator)
            acc = f(x, acc)
        exp.append(r_int(acc))
    elif fn == "reduce":
        src, f = BINS[c["cb"]]
        body = "reduce(v, %s)" % src
        if len(v) < 2:
            err = True
            nt = True
        else:
            acc = v[0]
            for x in v[1:]:
                exp += [r_int(acc), r_int(x)]
                acc = f(acc, x)
            exp.append(r_int(acc))
    elif fn == "sum":
        body = "sum(v)"
        acc = 0.0
        for x in v:
            acc = x + acc
        exp.append(r_val(float(acc)))
    elif fn == "product":
        body = "product(v)"
        acc = 1.0
        for x in v:
            acc = x * acc
        exp.append(r_val(float(acc)))
    elif fn in ("any_of", "all_of"):
        src, f = PREDS[c["cb"]]
        body = "%s(v, %s)" % (fn, src)
        res = fn == "all_of"
        for i, x in enumerate(v):
            exp.append(r_int(x))
            if fn == "any_of" and f(x):
                res = True
                nt = nt or i < len(v) - 1
                break
            if fn == "all_of" and not f(x):
                res = False
                nt = nt or i < len(v) - 1
                break
        exp.append(r_bool(res))
    elif fn == "contains":
        body = "contains(v, %s)" % lit(c["x"])
        exp.append(r_bool(c["x"] in v))
    elif fn == "contains3":
        body = "contains(v, %s, fun(e, item){ rec(e); e > item })" % lit(c["x"])
        res = False
        for e in v:
            exp.append(r_int(e))
            if e > c["x"]:
                res = True
                break
        exp.append(r_bool(res))
    elif fn in ("find", "find3"):
        # find returns the range positioned at the first match (empty when there is none): observe how many elements remain
        cmpf = (lambda e, x: e == x) if fn == "find" else (lambda e, x: e > x)
        call = "find(v, %s)" % lit(c["x"]) if fn == "find" else "find(v, %s, fun(e, item){ e > item })" % lit(c["x"])
        body = "fun(v){ var r = %s; var n = 0; var first = -100; if (!r.empty()) { first = r.front() }; while (!r.empty()) { r.pop_front(); ++n }; [n, first] }(v)" % call
        idx = next((i for i, e in enumerate(v) if cmpf(e, c["x"])), None)
        exp.append(r_val([0, -100] if idx is None else [len(v) - idx, v[idx]]))
    elif fn == "take":
        body = "take(v, %s)" % lit(c["n"])
        exp.append(r_val(v[:max(c["n"], 0)]))
        nt = nt or c["n"] <= 0 or c["n"] >= len(v)
        alias_probe = True
    elif fn == "drop":
        body = "drop(v, %s)" % lit(c["n"])
        exp.append(r_val(v[max(c["n"], 0):]))
        nt = nt or c["n"] <= 0 or c["n"] >= len(v)
        alias_probe = True
    elif fn in ("take_while", "drop_while"):
        src, f = PREDS[c["cb"]]
        body = "%s(v, %s)" % (fn, src)
        k = 0
        while k < len(v) and f(v[k]):
            exp.append(r_int(v[k]))
            k += 1
        if k < len(v):
            exp.append(r_int(v[k]))  # the first failing element is tested too
        exp.append(r_val(v[:k] if fn == "take_while" else v[k:]))
        alias_probe = True
    elif fn == "zip":
        body = "zip(v, w)"
        exp.append(r_val([[a, b] for a, b in zip(v, c["w"])]))
    elif fn == "zip_with":
        src, f = BINS[c["cb"]]
        body = "zip_with(%s, v, w)" % src
        for a, b in zip(v, c["w"]):
            exp += [r_int(a), r_int(b)]
        exp.append(r_val([f(a, b) for a, b in zip(v, c["w"])]))
        alias_probe = True
    elif fn == "concat":
        body = "concat(v, w)"
        exp.append(r_val(v + c["w"]))
        alias_probe = True
    elif fn == "join":
        body = "join(v, %s)" % lit(c["d"])
        exp.append(r_str(c["d"].join(str(x) for x in v)))
    elif fn == "reverse":
        body = "reverse(v)"
        exp.append(r_val(list(reversed(v))))
        alias_probe = True
    elif fn == "retro":
        body = "fun(v){ var o = Vector(); var r = retro(range(v)); while (!r.empty()) { o.push_back(r.front()); r.pop_front() }; o }(v)"
        exp.append(r_val(list(reversed(v))))
    elif fn == "retro_retro":
        body = "fun(v){ var o = Vector(); var r = retro(retro(range(v))); while (!r.empty()) { o.push_back(r.back()); r.pop_back() }; o }(v)"
        exp.append(r_val(list(reversed(v))))
    elif fn == "generate_range":
        body = "generate_range(%s, %s)" % (lit(c["a"]), lit(c["b"]))
        exp.append(r_val(list(range(c["a"], c["b"] + 1))))
        nt = c["a"] >= c["b"]
    elif fn == "range_lit":
        body = "[%s..%s]" % (lit(c["a"]), lit(c["b"]))
        exp.append(r_val(list(range(c["a"], c["b"] + 1))))
        nt = c["a"] >= c["b"]
    elif fn in ("min", "max"):
        body = "%s(%s, %s)" % (fn, lit(c["a"]), lit(c["b"]))
        exp.append(r_int(min(c["a"], c["b"]) if fn == "min" else max(c["a"], c["b"])))
        nt = c["a"] == c["b"]
    elif fn in ("even", "odd"):
        body = "%s(%s)" % (fn, lit(c["a"]))
        exp.append(r_bool((c["a"] % 2 == 0) == (fn == "even")))
        nt = c["a"] <= 0
    elif fn == "trim":
        s = c["s"]
        body = "%s.%s()" % (lit(s), c["which"])
        ws = " \t\r\n"
        out = s.strip(ws) if c["which"] == "trim" else s.lstrip(ws) if c["which"] == "ltrim" else s.rstrip(ws)
        exp.append(r_str(out))
        nt = out != s or s == ""
    elif fn == "strfind":
        s, sub, w = c["s"], c["sub"], c["which"]
        body = "%s.%s(%s)" % (lit(s), w, lit(sub))
        if w == "find":
            p = s.find(sub)
        elif w == "rfind":
            p = s.rfind(sub)
        elif w == "find_first_of":
            p = next((i for i, ch in enumerate(s) if ch in sub), -1)
        elif w == "find_last_of":
            p = next((i for i in range(len(s) - 1, -1, -1) if s[i] in sub), -1)
        elif w == "find_first_not_of":
            p = next((i for i, ch in enumerate(s) if ch not in sub), -1)
        else:
            p = next((i for i in range(len(s) - 1, -1, -1) if s[i] not in sub), -1)
        exp.append("u64:%d" % (NPOS if p < 0 else p))
        nt = p < 0 or s == "" or sub == ""
    elif fn == "to_string":
        k = c["kind"]
        if k == "ints":
            body = "to_string(v)"
            exp.append(r_str("[" + ", ".join(str(x) for x in v) + "]"))
        elif k == "strs":
            body = "to_string(%s)" % lit(c["w"])
            exp.append(r_str("[" + ", ".join(c["w"]) + "]"))
        elif k == "nested":
            body = "to_string([v, %s, 3])" % lit(c["w"])
            exp.append(r_str("[[" + ", ".join(str(x) for x in v) + "], [" + ", ".join(c["w"]) + "], 3]"))
        elif k == "pair":
            body = "to_string(Pair(%s, v))" % lit(len(v))
            exp.append(r_str("<%d, [%s]>" % (len(v), ", ".join(str(x) for x in v))))
        elif k == "map":
            keys = sorted(set(c["w"]))
            body = "to_string([" + ", ".join("%s:%d" % (lit(kk), i) for i, kk in enumerate(keys)) + "])" if keys else "to_string(Map())"
            exp.append(r_str("[" + ", ".join("<%s, %d>" % (kk, i) for i, kk in enumerate(keys)) + "]"))
        else:
            body = "to_string(Vector())"
            exp.append(r_str("[]"))
            nt = True
    elif fn == "str_container":
        s, w, n = c["s"], c["which"], c["n"]
        pre += "var s = %s;\n" % lit(s)
        inputs.append(("s", s))
        nt = len(s) <= 1
        if w == "take":
            body = "take(s, %s)" % lit(n)
            exp.append(r_str(s[:max(n, 0)]))
            nt = nt or n <= 0 or n >= len(s)
        elif w == "drop":
            body = "drop(s, %s)" % lit(n)
            exp.append(r_str(s[max(n, 0):]))
            nt = nt or n <= 0 or n >= len(s)
        elif w == "reverse":
            body = "reverse(s)"
            exp.append(r_str(s[::-1]))
        elif w == "filter":
            body = "filter(s, fun(ch){ ch != 'a' })"
            exp.append(r_str(s.replace("a", "")))
        elif w == "concat":
            body = "concat(s, s)"
            exp.append(r_str(s + s))
        else:
            pre += "for_each(s, fun(ch){ rec(ch) });\n"
            body = "0"
            exp += ["char:%d" % ord(ch) for ch in s] + [r_int(0)]
    elif fn == "map_container":
        keys = sorted(c["keys"])
        vals = dict(zip(c["keys"], c["vals"]))
        pre += "var m = %s;\n" % ("[" + ", ".join("%s:%s" % (lit(k), lit(vals[k])) for k in c["keys"]) + "]" if keys else "Map()")
        nt = len(keys) <= 1
        if c["which"] == "for_each":
            pre += "for_each(m, fun(p){ rec(p.first); rec(p.second) });\n"
            body = "0"
            for k in keys:
                exp += [r_str(k), r_int(vals[k])]
            exp.append(r_int(0))
        else:
            body = "foldl(m, fun(p, acc){ acc * 2 + p.second }, 1)"
            acc = 1
            for k in keys:
                acc = acc * 2 + vals[k]
            exp.append(r_int(acc))
    else:
        raise AssertionError(fn)

    script = pre + "var res = " + body + ";\nrec(res);\n"
    if alias_probe:
        script += "res.push_back(78);\n"   # structural change of the result must not show in the inputs
    for name, val in inputs:
        script += "rec(%s);\n" % name
        exp.append(r_val(val))
    return script, (None if err else exp), nt


def check(c, ctx):
    script, exp, nt = build(c)
    res = ctx.request({"cmd": "run", "script": script, "engines": [{"opt": True}]})["results"][0]
    ctx.classify("function", c["fn"])
    key = tuple(sorted((k, repr(v)) for k, v in c.items()))
    if nt:
        ctx.nontrivial(key)
        ctx.classify("nontrivial_by_function", c["fn"])
    ctx.sample({"script": script, "expected_rec": exp})
    if exp is None:
        if "exc" not in res:
            raise Violation("%s: expected an error (precondition violated) but the call returned %s" % (c["fn"], res.get("rec")), {"script": script})
        return
    if "exc" in res:
        raise Violation("%s: unexpected exception %s: %s" % (c["fn"], res["exc"].get("kind"), res["exc"].get("reason") or res["exc"].get("what")),
                        {"script": script, "expected": exp})
    if res["rec"] != exp:
        raise Violation("%s: observed %s, specification says %s" % (c["fn"], res["rec"], exp), {"script": script})


def root_cause(f):
    return f["case"]["fn"]


def main(tier):
    vlib.ensure_built("runner")
    ev = vlib.Evidence(PID, tier)
    ev.cov["rule"] = RULE
    ev.assumptions = ["specifications written from the prelude's documentation comments and function names (foldl calls func(element, accumulator); "
                      "reduce needs >= 2 elements; sum/product return doubles; find returns a range positioned at the first match)"]
    n = 4000 if tier == "quick" else 100000
    failures = hyp.run("c17", ev, tier, n)
    confirmed = hyp.confirm("c17", failures, PID)
    for p, what in confirmed:
        vlib.violation(PID, p, what)
    vlib.finish(ev, len(confirmed))


def replay(path):
    vlib.ensure_built("runner")
    return hyp.replay("c17", path)
