"""Grammar-directed, type-directed generator of closed, terminating ChaiScript programs as a JSON-able AST (see model/refchai.py).

Every identifier resolves and every operation is well typed by construction, except for one deliberately injected fault in
about 10% of the programs (ill-typed operation, unknown function, const violation, division by zero, index out of range).
"""
from hypothesis import strategies as st

STRS = ["", "a", "b", "ab", "x y", "7"]
CLASS_ATTRS = ["a", "b", "c", "d"]
MAPKEYS = ["a", "b", "c", "dd"]


class Env:
    def __init__(self, draw, depth_budget=3):
        self.draw = draw
        self.scopes = [{}]          # name -> type
        self.n = 0
        self.funcs = []             # (name, [param types], ret type)  -- plain user functions
        self.classes = []           # class names
        self.globals = {}
        self.in_loop = 0
        self.in_func = None         # return type when inside a function body
        self.fault = None           # pending fault kind to inject once
        self.max_depth = depth_budget
        self.readonly = set()       # names generated statements never assign to (function parameters: their const-ness depends on the call site)
        self.in_rfor = 0
        self.mapkeys = {}           # map variable -> keys it (probably) holds; only steers generation, the model decides

    # ---- helpers
    def i(self, lo, hi):
        return self.draw(st.integers(lo, hi))

    def pick(self, seq):
        return seq[self.i(0, len(seq) - 1)]

    def chance(self, num, den):
        return self.i(1, den) <= num

    def fresh(self, prefix="v"):
        self.n += 1
        return "%s%d" % (prefix, self.n)

    def visible(self, t):
        out = []
        seen = set()
        for sc in reversed(self.scopes):
            for name, ty in sc.items():
                if name not in seen:
                    seen.add(name)
                    if ty == t:
                        out.append(name)
        for name, ty in self.globals.items():
            if name not in seen and ty == t:
                out.append(name)
        return sorted(out)

    def declare_name(self, t):
        """a fresh name, or (sometimes) the name of an outer variable of the same type: shadowing"""
        if len(self.scopes) > 1 and self.chance(1, 5):
            outer = [n for sc in self.scopes[:-1] for n, ty in sc.items() if ty == t and n not in self.scopes[-1]]
            if outer:
                name = self.pick(sorted(set(outer)))
                self.scopes[-1][name] = t
                return name
        name = self.fresh()
        self.scopes[-1][name] = t
        return name

    # ---- expressions
    def lit(self, t):
        if t == "int":
            return ["i", self.pick([0, 1, 2, 3, 5, 7, 10, -1, -3, 12, -8, 20])]
        if t == "bool":
            return ["b", self.chance(1, 2)]
        if t == "str":
            return ["s", self.pick(STRS)]
        if t == "vec":
            return ["vec", [["i", self.i(-5, 9)] for _ in range(self.i(0, 4))]]
        raise AssertionError(t)

    def expr(self, t, d=None):
        d = self.max_depth if d is None else d
        vars_ = self.visible(t)
        if t == "int":
            vars_ = vars_ + self.visible("loopint")    # loop counters are readable but never assigned by generated statements
        if d <= 0:
            if vars_ and self.chance(2, 3):
                return ["id", self.pick(vars_)]
            return self.lit(t)
        c = self.i(0, 11)
        if t in ("int", "str") and self.chance(1, 7):
            ps = self.visible("mpair")
            if ps:
                return ["attr", ["id", self.pick(ps)], "second" if t == "int" else "first"]
            ms = self.visible("map")
            if ms and t == "int":
                m = self.pick(ms)
                known = sorted(self.mapkeys.get(m, ()))
                key = self.pick(known) if known and self.chance(9, 10) else self.pick(MAPKEYS)
                return self.pick([["m", ["id", m], "at", [["s", key]]], ["idx", ["id", m], ["s", key]], ["size", ["id", m]]])
        if t == "int":
            if c <= 1:
                return self.lit(t)
            if c <= 3 and vars_:
                return ["id", self.pick(vars_)]
            if c <= 5:
                return ["bin", self.pick(["+", "-", "+", "-", "*"]), self.expr("int", d - 1), self.expr("int", d - 2)]
            if c == 6:
                # division / remainder: mostly by a non-zero literal
                div = ["i", self.pick([1, 2, 3, -2, 5, 7])] if self.chance(4, 5) else self.expr("int", d - 2)
                return ["bin", self.pick(["/", "%"]), self.expr("int", d - 1), div]
            if c == 7:
                return ["un", "-", self.expr("int", d - 1)]
            if c == 8:
                return ["tern", self.expr("bool", d - 1), self.expr("int", d - 1), self.expr("int", d - 1)]
            if c == 9:
                fs = [f for f in self.funcs if f[2] == "int"]
                if fs:
                    f = self.pick(fs)
                    return ["call", f[0], [self.expr(pt, d - 2) for pt in f[1]]]
            if c == 10:
                vs = self.visible("vec")
                if vs:
                    v = self.pick(vs)
                    return ["idx", ["id", v], ["i", self.i(0, 2)]] if self.chance(2, 3) else ["size", ["id", v]]
                objs = [n for cl in self.classes for n in self.visible("obj:" + cl)]
                if objs:
                    o = self.pick(objs)
                    return self.pick([["m", ["id", o], "get", []], ["attr", ["id", o], "a"], ["m", ["id", o], "sum", []]])
            if c == 11:
                ls = self.visible("lam")
                if ls:
                    return ["call", self.pick(ls), [self.expr("int", d - 2)]]
                return ["bin", self.pick(["&", "|", "^"]), self.expr("int", d - 2), self.lit("int")] if self.chance(1, 3) else self.lit(t)
            return self.lit(t)
        if t == "bool":
            if c <= 1:
                return self.lit(t)
            if c <= 2 and vars_:
                return ["id", self.pick(vars_)]
            if c <= 6:
                return ["bin", self.pick(["<", "<=", ">", ">=", "==", "!="]), self.expr("int", d - 1), self.expr("int", d - 1)]
            if c == 7:
                return ["bin", self.pick(["==", "!=", "<"]), self.expr("str", d - 1), self.expr("str", d - 1)]
            if c <= 9:
                return ["bin", self.pick(["&&", "||"]), self.expr("bool", d - 1), self.expr("bool", d - 1)]
            if c == 10:
                return ["un", "!", self.expr("bool", d - 1)]
            return ["tern", self.expr("bool", d - 1), self.expr("bool", d - 1), self.expr("bool", d - 1)]
        if t == "str":
            if c <= 2:
                return self.lit(t)
            if c <= 4 and vars_:
                return ["id", self.pick(vars_)]
            if c <= 6:
                return ["bin", "+", self.expr("str", d - 1), self.expr("str", d - 1)]
            if c == 7:
                return ["tostr", self.expr("int", d - 1)]
            if c == 8:
                # the interpolated expression must not contain a quote character (not supported inside "${...}"): ints, bools, or a string variable
                it = self.pick(["int", "int", "bool", "strvar"])
                inner = (["id", self.pick(vars_)] if vars_ else self.lit("int")) if it == "strvar" else self.noquote(self.expr(it, d - 1), it)
                return ["interp", [self.pick(["", "a", "<"]), inner, self.pick(["", ">", " "])]]
            if c == 9:
                return ["tern", self.expr("bool", d - 1), self.expr("str", d - 1), self.expr("str", d - 1)]
            fs = [f for f in self.funcs if f[2] == "str"]
            if fs:
                f = self.pick(fs)
                return ["call", f[0], [self.expr(pt, d - 2) for pt in f[1]]]
            return self.lit(t)
        if t == "vec":
            if vars_ and self.chance(2, 3):
                return ["id", self.pick(vars_)]
            return ["vec", [self.expr("int", d - 1) for _ in range(self.i(0, 3))]]
        raise AssertionError(t)

    def noquote(self, e, t):
        """replace the expression by a literal when its text would contain a string literal"""
        import json
        return self.lit(t) if ('"s"' in json.dumps(e) or '"interp"' in json.dumps(e) or '"tostr"' in json.dumps(e)) else e

    # ---- statements
    def block(self, d, n_max=4):
        self.scopes.append({})
        out = []
        for _ in range(self.i(1, n_max)):
            out += self.stmt(d)
        self.scopes.pop()
        return out

    def stmt(self, d):
        """-> list of statements (usually one)"""
        c = self.i(0, 35)
        t = self.pick(["int", "int", "int", "bool", "str"])
        if c >= 32:
            return self.map_stmt(d)
        if c >= 30:
            if d <= 0 or self.in_rfor:
                return [["print", self.expr(t)]]
            return self.closure_loop(d)
        if c <= 4:
            e = self.expr(t)
            return [["var", self.declare_name(t), e, self.pick(["var", "var", "auto"])]]
        if c <= 8:
            vs = [n for n in self.visible(t) if n not in self.readonly]
            if vs:
                name = self.pick(vs)
                if t == "int":
                    op = self.pick(["=", "=", "+=", "-=", "*="])
                elif t == "str":
                    op = self.pick(["=", "+="])
                else:
                    op = "="
                return [["assign", ["id", name], op, self.expr(t, 2)]]
            return [["print", self.expr(t)]]
        if c <= 11:
            return [["print", self.expr(t)]]
        if c == 12:
            return [["rec", self.expr(t)]]
        if c == 13:
            vs = [n for n in self.visible("int") if n not in self.readonly]
            if vs:
                return [["inc", self.pick(["++", "--"]), ["id", self.pick(vs)]]]
            return [["print", self.expr("int")]]
        if c <= 16 and d > 0:
            arms = [[self.expr("bool"), self.block(d - 1)] for _ in range(self.i(1, 3))]
            return [["if", arms, self.block(d - 1) if self.chance(1, 2) else None]]
        if c == 17 and d > 0:
            k = self.fresh("k")
            self.scopes[-1][k] = "cnt"   # loop counter: not offered to expression generation as a plain int (it is modified by the loop header)
            n = self.i(0, 4)
            cond = ["bin", "<", ["id", k], ["i", n]]
            if self.chance(1, 3):
                cond = ["bin", "&&", cond, self.expr("bool", 1)]
            self.in_loop += 1
            body = [["inc", "++", ["id", k]]] + self.loop_block(d - 1)
            self.in_loop -= 1
            return [["var", k, ["i", 0], "var"], ["while", cond, body]]
        if c <= 19 and d > 0:
            self.scopes.append({})
            iv = self.fresh("i")
            lo, hi = self.i(-1, 2), self.i(0, 4)
            shape = self.i(0, 4)
            self.scopes[-1][iv] = "loopint"
            if shape <= 1:
                cond, step = ["bin", "<", ["id", iv], ["i", hi]], ["inc", "++", ["id", iv]]
            elif shape == 2:
                cond, step = ["bin", "<=", ["id", iv], ["i", hi]], ["inc", "++", ["id", iv]]
            elif shape == 3:
                cond, step = ["bin", "<", ["id", iv], ["i", hi + 2]], ["assign", ["id", iv], "+=", ["i", 2]]
            else:
                lo, cond, step = hi, ["bin", ">", ["id", iv], ["i", -1]], ["inc", "--", ["id", iv]]
            self.in_loop += 1
            body = self.loop_block(d - 1, forbid_assign=iv)
            self.in_loop -= 1
            self.scopes.pop()
            return [["for", iv, ["i", lo], cond, step, body]]
        if c == 20 and d > 0:
            vs = self.visible("vec")
            src = ["id", self.pick(vs)] if vs and self.chance(2, 3) else self.lit("vec")
            self.scopes.append({})
            x = self.fresh("e")
            self.scopes[-1][x] = "int"
            self.in_loop += 1
            self.in_rfor += 1
            body = self.loop_block(d - 1)
            self.in_rfor -= 1
            self.in_loop -= 1
            self.scopes.pop()
            return [["rfor", x, src, body]]
        if c == 21 and d > 0:
            vals = sorted(set(self.i(0, 4) for _ in range(self.i(1, 3))))
            cases = [[["i", v], self.block(d - 1, 2), self.chance(2, 3)] for v in vals]
            return [["switch", self.expr("int", 2), cases, self.block(d - 1, 2) if self.chance(1, 2) else None]]
        if c == 22:
            e = self.expr("vec")
            return [["var", self.declare_name("vec"), e if e[0] == "vec" else self.lit("vec"), "var"]]
        if c == 23:
            vs = self.visible("vec")
            if vs:
                v = self.pick(vs)
                if self.chance(1, 2) and not self.in_rfor:   # never grow a vector while a ranged-for may be iterating over it
                    return [["expr", ["m", ["id", v], "push_back", [self.expr("int", 2)]]]]
                return [["assign", ["idx", ["id", v], ["i", self.i(0, 2)]], self.pick(["=", "+="]), self.expr("int", 2)]]
            return [["print", self.expr("str")]]
        if c == 24:
            # reference alias
            tt = self.pick(["int", "str", "vec"])
            vs = [n for n in self.visible(tt) if n not in self.readonly]
            if vs:
                target = self.pick(vs)
                name = self.fresh("r")
                self.scopes[-1][name] = tt
                return [["ref", name, target, self.i(0, 1)]]
            return [["print", self.expr("int")]]
        if c == 25:
            # lambda, with or without captures
            name = self.fresh("l")
            caps = []
            ints = [n for n in self.visible("int") if not n.startswith("k")]
            if ints and self.chance(1, 2):
                caps = [self.pick(ints)]
            self.scopes.append({"p": "int"})
            saved_loop, self.in_loop = self.in_loop, 0
            if caps:
                keep, self.scopes = self.scopes, [{"p": "int", caps[0]: "int"}]     # the body sees its parameter and its captures only
                body = ([["assign", ["id", caps[0]], "+=", ["id", "p"]]] if self.chance(1, 2) else []) + [["expr", ["bin", "+", ["id", caps[0]], self.expr("int", 1)]]]
                self.scopes = keep
            else:
                # a lambda without captures sees only its parameter
                keep, self.scopes = self.scopes, [{"p": "int"}]
                body = [["expr", ["bin", self.pick(["+", "-", "*"]), ["id", "p"], self.lit("int")]]]
                self.scopes = keep
            self.in_loop = saved_loop
            self.scopes.pop()
            self.scopes[-1][name] = "lam"
            return [["var", name, ["lam", ["p"], caps, body], "var"]]
        if c == 26 and self.classes:
            cl = self.pick(self.classes)
            name = self.fresh("o")
            self.scopes[-1][name] = "obj:" + cl
            return [["var", name, ["new", cl, [self.expr("int", 2)]], "var"]]
        if c == 27 and self.classes:
            objs = [(n, cl) for cl in self.classes for n in self.visible("obj:" + cl)]
            if objs:
                o, cl = self.pick(objs)
                k = self.i(0, 5)
                if k == 3:
                    return [["print", ["m", ["id", o], "both", [self.expr("int", 1)]]]]
                if k >= 4:
                    return [["print", ["m", ["id", o], "tag", [self.expr("str", 1)]]]]
                if k == 0:
                    return [["expr", ["m", ["id", o], "set", [self.expr("int", 2)]]]]
                if k == 1:
                    return [["assign", ["attr", ["id", o], "a"], self.pick(["=", "+="]), self.expr("int", 2)]]
                return [["print", ["m", ["id", o], "add", [self.expr("int", 1)]]]]
        if c == 28:
            # call a function for its effect on a by-reference parameter
            fs = [f for f in self.funcs if f[0].startswith("mut")]
            ints = [n for n in self.visible("int") if self.lookup_type(n) == "int"]
            if fs and ints:
                return [["expr", ["call", self.pick(fs)[0], [["id", self.pick(ints)]]]]]
        if c == 29 and self.in_loop and self.chance(2, 3):
            return [["if", [[self.expr("bool", 1), [[self.pick(["break", "continue"])]]]], None]]
        if self.in_func and self.chance(1, 6) and d > 0:
            return [["if", [[self.expr("bool", 1), [["return", self.expr(self.in_func, 2)]]]], None]]
        if d > 0 and self.chance(1, 4):
            return [["block", self.block(d - 1, 3)]]
        return [["print", self.expr(t)]]

    def map_stmt(self, d):
        """string-keyed maps of ints: literals (with repeated keys), insertion through [], at(), count, erase, size, to_string, ranged-for over <key, value> pairs"""
        ms = self.visible("map")
        if not ms or self.chance(1, 4):
            name = self.fresh("m")
            keys = [self.pick(MAPKEYS) for _ in range(self.i(0, 3))]
            lit = ["map", [[k, self.expr("int", 1)] for k in keys]]
            self.scopes[-1][name] = "map"
            self.mapkeys[name] = set(keys)
            return [["var", name, lit, "var"]]
        m = self.pick(ms)
        known = sorted(self.mapkeys.get(m, ()))
        key = self.pick(known) if known and self.chance(7, 8) else self.pick(MAPKEYS)
        k = self.i(0, 10)
        if k <= 2:
            if self.in_rfor:
                # no structural change while a ranged-for may be walking the map: at() never inserts
                return [["assign", ["m", ["id", m], "at", [["s", key]]], self.pick(["=", "+=", "-="]), self.expr("int", 2)]]
            if key in known and self.chance(1, 2):
                return [["assign", ["idx", ["id", m], ["s", key]], self.pick(["+=", "*=", "="]), self.expr("int", 2)]]
            self.mapkeys.setdefault(m, set()).add(key)
            return [["assign", ["idx", ["id", m], ["s", key]], "=", self.expr("int", 2)]]
        if k == 3:
            return [["print", ["m", ["id", m], "at", [["s", key]]]]]
        if k == 4:
            return [["print", ["m", ["id", m], "count", [["s", self.pick(MAPKEYS)]]]], ["print", ["m", ["id", m], "empty", []]]]
        if k == 5:
            return [["print", ["id", m]], ["print", ["size", ["id", m]]]]
        if k == 6 and not self.in_rfor:
            self.mapkeys.get(m, set()).discard(key)
            return [["expr", ["m", ["id", m], "erase", [["s", key]]]], ["print", ["size", ["id", m]]]]
        if k == 7 and not self.in_rfor:
            # a structural copy: inserting into / erasing from the copy leaves the original alone
            name = self.fresh("m")
            self.scopes[-1][name] = "map"
            self.mapkeys[name] = set(known)
            nk = self.pick(MAPKEYS)
            return [["var", name, ["id", m], "var"], ["expr", ["m", ["id", name], "erase", [["s", nk]]]], ["print", ["size", ["id", m]]], ["print", ["size", ["id", name]]]]
        if d > 0:
            self.scopes.append({})
            x = self.fresh("p")
            self.scopes[-1][x] = "mpair"
            self.in_loop += 1
            self.in_rfor += 1
            body = [["print", ["bin", "+", ["attr", ["id", x], "first"], ["tostr", ["attr", ["id", x], "second"]]]]]
            if self.chance(1, 2):
                body.append(["assign", ["attr", ["id", x], "second"], self.pick(["+=", "=", "*="]), self.expr("int", 1)])
            body += self.loop_block(d - 1)
            self.in_rfor -= 1
            self.in_loop -= 1
            self.scopes.pop()
            return [["rfor", x, ["id", m], body], ["print", ["id", m]]]
        return [["print", ["size", ["id", m]]]]

    def closure_loop(self, d):
        """closures created in a loop capture the loop variable and are called in a later pass / after the loop"""
        L = self.fresh("L")
        self.scopes[-1][L] = "lamvec"
        x = self.fresh("c")
        write = self.chance(1, 3)
        body = ([["assign", ["id", x], "+=", ["i", 100]]] if write else []) + [["expr", ["bin", "+", ["id", x], self.lit("int")]]]
        push = ["expr", ["m", ["id", L], "push_back", [["lam", [], [x], body]]]]
        g = self.fresh("g")
        call_after = ["rfor", g, ["id", L], [["print", ["callv", ["id", g], []]]]]
        out = [["var", L, ["vec", []], "var"]]
        if self.chance(1, 2):
            vs = self.visible("vec")
            if vs and self.chance(2, 3):
                src_name = self.pick(vs)
                out.append(["rfor", x, ["id", src_name], [push]])
                out.append(call_after)
                out.append(["print", ["id", src_name]])
            else:
                src_name = self.fresh("w")
                self.scopes[-1][src_name] = "vec"
                out.append(["var", src_name, self.lit("vec"), "var"])
                out.append(["rfor", x, ["id", src_name], [push, ["if", [[["bin", ">", ["size", ["id", L]], ["i", 1]], [["print", ["callv", ["idx", ["id", L], ["i", 0]], []]]]]], None]]])
                out.append(call_after)
                out.append(["print", ["id", src_name]])
        else:
            lo, hi = self.i(0, 1), self.i(1, 3)
            cond, step = (["bin", "<", ["id", x], ["i", hi]], ["inc", "++", ["id", x]]) if self.chance(2, 3) else (["bin", "<=", ["id", x], ["i", hi]], ["inc", "++", ["id", x]])
            out.append(["for", x, ["i", lo], cond, step, [push]])
            out.append(call_after)
        return out

    def lookup_type(self, name):
        for sc in reversed(self.scopes):
            if name in sc:
                return sc[name]
        return self.globals.get(name)

    def loop_block(self, d, forbid_assign=None):
        return self.block(d, 3)

    # ---- definitions
    def gen_defs(self):
        defs = []
        # classes
        for _ in range(self.i(0, 2)):
            name = "C%d" % (len(self.classes) + 1)
            k = self.pick([0, 1, 2, 3])
            # the attribute gets a copy of the parameter: changing it in place must not show through the parameter (read again for b)
            ctor = [["assign", ["attr", ["id", "this"], "a"], "=", ["id", "x"]], ["assign", ["attr", ["id", "this"], "a"], "+=", ["i", k]],
                    ["assign", ["attr", ["id", "this"], "b"], "=", ["bin", "-", ["id", "x"], ["i", k]]]]
            methods = [
                ["get", [], [["expr", ["attr", ["id", "this"], "a"]]]],
                ["set", ["v"], [["assign", ["attr", ["id", "this"], "a"], "=", ["id", "v"]]]],
                ["add", ["k"], [["assign", ["attr", ["id", "this"], "a"], "+=", ["id", "k"]], ["expr", ["attr", ["id", "this"], "a"]]]],
                ["sum", [], [["expr", ["bin", self.pick(["+", "-", "*"]), ["attr", ["id", "this"], "a"], ["attr", ["id", "this"], "b"]]]]],
                # stores its parameter in an attribute that has no value before the first call, changes the attribute in place, returns the parameter:
                # the attribute holds a copy, whatever the argument was (variable, literal, temporary)
                # the same with strings (results of string operations are temporaries produced by function dispatch)
                ["tag", ["s"], [["assign", ["attr", ["id", "this"], "d"], "=", ["id", "s"]], ["assign", ["attr", ["id", "this"], "d"], "+=", ["s", "!"]],
                                ["expr", ["bin", "+", ["id", "s"], ["attr", ["id", "this"], "d"]]]]],
                ["both", ["v"], [["assign", ["attr", ["id", "this"], "c"], "=", ["id", "v"]], ["assign", ["attr", ["id", "this"], "c"], "+=", ["i", k + 1]],
                                 ["expr", ["bin", "-", ["attr", ["id", "this"], "c"], ["id", "v"]]]]],
            ]
            defs.append(["class", name, list(CLASS_ATTRS), ["x"], ctor, methods])
            self.classes.append(name)
        # plain functions with generated bodies
        for _ in range(self.i(0, 3)):
            name = self.fresh("f")
            nparams = self.i(0, 2)
            ptypes = [self.pick(["int", "int", "str", "bool"]) for _ in range(nparams)]
            ret = self.pick(["int", "int", "str"])
            params = [["p%d" % j, (pt if self.chance(1, 2) else None) and {"int": "int", "str": "string", "bool": "bool"}[pt]] for j, pt in enumerate(ptypes)]
            saved = (self.scopes, self.in_loop, self.in_func)
            self.scopes, self.in_loop, self.in_func = [dict(("p%d" % j, pt) for j, pt in enumerate(ptypes))], 0, ret
            self.readonly = set("p%d" % j for j in range(nparams))
            body = []
            for _ in range(self.i(0, 3)):
                body += self.stmt(2)
            body.append(["return", self.expr(ret)] if self.chance(1, 2) else ["expr", self.expr(ret)])
            self.scopes, self.in_loop, self.in_func = saved
            self.readonly = set()
            defs.append(["def", name, params, None, body])
            self.funcs.append((name, ptypes, ret))
        # a function that mutates its by-reference parameter
        if self.chance(1, 2):
            name = self.fresh("mut")
            defs.append(["def", name, [["p", None]], None, [["assign", ["id", "p"], self.pick(["+=", "*=", "="]), self.lit("int")], ["expr", ["id", "p"]]]])
            self.funcs.append((name, ["intvar"], "int_effect"))
        # bounded recursion
        if self.chance(1, 2):
            name = self.fresh("rec")
            op = self.pick(["+", "*", "-"])
            base = self.lit("int")
            defs.append(["def", name, [["n", self.pick([None, "int"])]], None,
                         [["if", [[["bin", "<=", ["id", "n"], ["i", 0]], [["return", base]]]], None],
                          ["return", ["bin", op, ["id", "n"], ["call", name, [["bin", "-", ["id", "n"], ["i", 1]]]]]]]])
            self.funcs.append((name, ["smallint"], "int"))
        # overload sets: typed/typed, typed/untyped, guarded/unguarded, in random definition order
        if self.chance(1, 2):
            name = self.fresh("ov")
            kind = self.i(0, 2)
            if kind == 0:
                pair = [["def", name, [["x", "int"]], None, [["expr", ["bin", "+", ["id", "x"], ["i", 100]]]]],
                        ["def", name, [["x", "string"]], None, [["expr", ["i", 200]]]]]
                sig = ["int_or_str"]
            elif kind == 1:
                pair = [["def", name, [["x", "int"]], None, [["expr", ["bin", "+", ["id", "x"], ["i", 100]]]]],
                        ["def", name, [["x", None]], None, [["expr", ["i", 300]]]]]
                sig = ["int_or_str"]
            else:
                g = self.pick([0, 2, 5])
                pair = [["def", name, [["x", None]], ["bin", ">", ["id", "x"], ["i", g]], [["expr", ["bin", "*", ["id", "x"], ["i", 2]]]]],
                        ["def", name, [["x", None]], None, [["expr", ["i", 400]]]]]
                sig = ["int"]
            if self.chance(1, 2):
                pair.reverse()
            defs += pair
            self.funcs.append((name, sig, "int"))
        return defs


def fix_special_args(env, prog_part):
    """replace placeholder parameter kinds used by the special functions"""
    return prog_part


@st.composite
def programs(draw, with_faults=True):
    env = Env(draw)
    defs = env.gen_defs()
    # expression generation for special parameter kinds
    base_expr = env.expr

    def expr(t, d=None):
        if t == "smallint":
            return ["i", env.i(0, 5)]
        if t == "intvar":
            vs = [n for n in env.visible("int")]
            return ["id", env.pick(vs)] if vs else ["i", 1]
        if t == "int_or_str":
            return base_expr(env.pick(["int", "str"]), 1)
        return base_expr(t, d)
    env.expr = expr
    main = []
    for _ in range(env.i(0, 2)):
        g = env.fresh("g")
        t = env.pick(["int", "str"])
        main.append(["global", g, env.lit(t)])
        env.globals[g] = t
    # functions were generated before the globals existed, so only main (and lambdas) read them
    for _ in range(env.i(2, 10)):
        main += env.stmt(3)
    names = []
    for t in ("int", "bool", "str", "vec", "map"):
        names += [n for n in env.visible(t) if n in env.scopes[0]]
    names = sorted(set(names))[:8]
    result = ["vec", [["id", n] for n in names]]
    prog = {"defs": [d for d in defs], "main": main, "result": result, "layout": draw(st.lists(st.integers(0, 7), min_size=0, max_size=6))}
    if with_faults and env.chance(1, 10):
        inject_fault(env, prog)
    # effect-only functions are not valid in expression position: rewrite their call sites' result type is handled by construction (never used as int)
    return prog


def inject_fault(env, prog):
    kind = env.pick(["illtyped", "unknown_fn", "const_param", "divzero", "index", "assign_type", "redeclare", "throw"])
    pos = env.i(0, len(prog["main"]))
    if kind == "illtyped":
        s = ["print", ["bin", "+", ["i", 1], ["s", "a"]]]
    elif kind == "unknown_fn":
        s = ["expr", ["call", "no_such_function_zz", [["i", 1]]]]
    elif kind == "const_param":
        muts = [d for d in prog["defs"] if d[0] == "def" and d[1].startswith("mut")]
        s = ["expr", ["call", muts[0][1], [["i", 3]]]] if muts else ["expr", ["bin", "/", ["i", 1], ["i", 0]]]
    elif kind == "divzero":
        s = ["print", ["bin", env.pick(["/", "%"]), ["i", 7], ["bin", "-", ["i", 2], ["i", 2]]]]
    elif kind == "index":
        s = ["print", ["idx", ["vec", [["i", 1]]], ["i", env.pick([1, 5, -1])]]]
    elif kind == "assign_type":
        prog["main"].insert(pos, ["var", "zz_t", ["i", 1], "var"])
        s = ["assign", ["id", "zz_t"], "=", ["s", "str"]]
        pos += 1
    elif kind == "redeclare":
        prog["main"].insert(pos, ["var", "zz_r", ["i", 1], "var"])
        s = ["var", "zz_r", ["i", 2], "var"]
        pos += 1
    else:
        s = ["expr", ["call", "throw", [["i", 7]]]]
    prog["main"].insert(pos, s)
    prog["fault"] = kind
