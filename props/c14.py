"""C14 - engine instances are isolated from one another (histories over reusable slots and long-lived threads)."""
from hypothesis import strategies as st

import hyp
import vlib
from hyp import Violation

PID = "C14"
RULE = ("histories (<=30 steps) over 4 engine slots (two static buffers used with placement new, so that a new engine reuses the address of a destroyed "
        "one, and two heap slots) and 4 threads (main + 3 workers that outlive every engine): create / destroy / eval of scripts declaring locals, "
        "globals, functions and classes with deliberately colliding names / user conversions between three C++ types registered per instance / use() of two "
        "files / probes of names, constructors, conversions. Oracle: a dictionary model per engine *instance* (locals per "
        "thread; globals, functions, classes, conversions and used files per instance); every probe and get_locals() must equal the model. non-trivial = a create on a previously "
        "used slot followed by a probe from a thread that used the earlier instance, or two live engines with a colliding name / both with conversions / both having used the same file; distinct = distinct histories")

NAMES = ["alpha", "beta", "gamma"]
CONVS = ["a2b", "a2c", "b2c"]
CONV_PROBE = {"a2b": "take_cb(make_ca(5))", "a2c": "take_cc(make_ca(5))", "b2c": "take_cc(make_cb(5))"}

_ST = {"slot": st.integers(0, 3), "thread": st.integers(0, 3)}


def _op(opname, **kw):
    return st.fixed_dictionaries(dict({"op": st.just(opname)}, **_ST, **kw))


OPS = {
    "create": _op("create"), "destroy": _op("destroy"),
    "var": _op("var", name=st.sampled_from(NAMES), v=st.integers(1, 99)), "global": _op("global", name=st.sampled_from(NAMES), v=st.integers(1, 99)),
    "def": _op("def", name=st.sampled_from(NAMES), v=st.integers(1, 99)), "probe": _op("probe", name=st.sampled_from(NAMES)),
    "call": _op("call", name=st.sampled_from(NAMES)), "class": _op("class", name=st.sampled_from(["Ka", "Kb"]), v=st.integers(1, 99)),
    "newobj": _op("newobj", name=st.sampled_from(["Ka", "Kb"])), "conv": _op("conv", kind=st.sampled_from(CONVS), v=st.integers(1, 99)),
    "convprobe": _op("convprobe", kind=st.sampled_from(CONVS), pick=st.integers(0, 7)), "use": _op("use", file=st.sampled_from(["u1", "u2"])),
}
step = st.one_of(*[OPS[o] for o in ("create", "create", "destroy", "var", "var", "global", "def", "probe", "probe", "probe", "call", "class", "newobj", "conv", "conv",
                                    "convprobe", "convprobe", "use", "use")])


@st.composite
def paired(draw):
    """two engines set up side by side (same kinds of things, independently drawn contents), then probed alternately from one thread"""
    a, b = draw(st.sampled_from([(0, 1), (1, 0), (0, 2), (2, 3), (1, 3)]))
    t = draw(st.integers(0, 3))
    setup = st.one_of(*[OPS[o] for o in ("var", "global", "def", "class", "conv", "conv", "use")])
    probe = st.one_of(*[OPS[o] for o in ("probe", "call", "newobj", "convprobe", "convprobe", "use")])
    out = [{"op": "create", "slot": a, "thread": draw(st.integers(0, 3))}, {"op": "create", "slot": b, "thread": draw(st.integers(0, 3))}]
    n = draw(st.integers(1, 3))
    both_convert = draw(st.booleans())
    for slot in (a, b):
        if both_convert:
            out.append(dict(draw(OPS["conv"]), slot=slot))
        for _ in range(n):
            out.append(dict(draw(setup), slot=slot))
    for i in range(draw(st.integers(2, 8))):
        out.append(dict(draw(probe), slot=(a, b)[i % 2], thread=t))
    return out + draw(st.lists(step, max_size=6))


def strategy():
    # slots 0/1 (address reuse) are favoured
    return st.one_of(st.fixed_dictionaries({"steps": st.lists(step, min_size=3, max_size=30), "fold": st.booleans()}),
                     st.fixed_dictionaries({"steps": st.lists(step, min_size=3, max_size=30), "fold": st.booleans()}),
                     st.fixed_dictionaries({"steps": paired(), "fold": st.just(False)}))


class Inst:
    def __init__(self):
        self.locals = {}     # thread -> {name: v}
        self.globals = {}
        self.funcs = {}
        self.classes = {}
        self.convs = {}
        self.used = set()


def check(c, ctx):
    import os
    root = vlib.workdir("c14_%d_%d" % (os.getpid(), ctx.idx)) + "/"
    for f in ("u1", "u2"):
        with open(root + f + ".chai", "w") as fh:
            fh.write("print(\"file-%s\")\n" % f)
    ctx.request({"cmd": "c14", "op": "reset", "slot": 0, "thread": 0})
    live = {}
    used_slot_threads = {}     # slot -> set of threads that evaluated on any earlier instance in this slot
    nontrivial = False
    trace = []
    try:
        for k, s_ in enumerate(c["steps"]):
            slot = s_["slot"] % 2 if c["fold"] else s_["slot"]      # "fold": only the two address-reusing slots
            th = s_["thread"]
            op = s_["op"]
            if op not in ("create", "destroy"):
                # operations address a live engine; when there is none, one is created first (on the operation's thread)
                if not live:
                    ctx.request({"cmd": "c14", "op": "create", "slot": slot, "thread": th})
                    live[slot] = Inst()
                    u = used_slot_threads.setdefault(slot, {"earlier": set(), "current": set()})
                    u["earlier"] |= u["current"]
                    u["current"] = set()
                    trace.append("create(slot %d) on T%d" % (slot, th))
                elif slot not in live:
                    slot = sorted(live)[s_["slot"] % len(live)]
            if op == "create":
                ctx.request({"cmd": "c14", "op": "create", "slot": slot, "thread": th})
                live[slot] = Inst()
                u = used_slot_threads.setdefault(slot, {"earlier": set(), "current": set()})
                u["earlier"] |= u["current"]
                u["current"] = set()
                trace.append("create(slot %d) on T%d" % (slot, th))
                continue
            if op == "destroy":
                if slot in live:
                    ctx.request({"cmd": "c14", "op": "destroy", "slot": slot, "thread": th})
                    del live[slot]
                    trace.append("destroy(slot %d) on T%d" % (slot, th))
                continue
            if slot not in live:
                continue
            inst = live[slot]
            name = s_.get("name")
            loc = inst.locals.setdefault(th, {})
            want_out = ""
            if op == "conv":
                # a user conversion registered in this instance only
                trace.append("slot %d T%d: add(type_conversion %s, +%d)" % (slot, th, s_["kind"], s_["v"]))
                r = ctx.request({"cmd": "c14", "op": "conv", "slot": slot, "thread": th, "kind": s_["kind"], "k": s_["v"]})
                if ("exc" in r) != (s_["kind"] in inst.convs):
                    raise Violation("step %d (%s): %s, the model of this engine instance says the conversion %s" % (
                        k, trace[-1], "raised %s" % r["exc"].get("kind") if "exc" in r else "succeeded", "already exists" if s_["kind"] in inst.convs else "is new here"), {"trace": trace})
                inst.convs.setdefault(s_["kind"], s_["v"])
                if sum(1 for o in live.values() if o.convs) >= 2:
                    nontrivial = True
                continue
            if op == "convprobe":
                if inst.convs and s_["pick"] % 4:         # mostly a conversion this instance has; sometimes whatever was drawn
                    s_ = dict(s_, kind=sorted(inst.convs)[s_["pick"] % len(inst.convs)])
                script = CONV_PROBE[s_["kind"]]
                want = ("i32:%d" % (5 + inst.convs[s_["kind"]])) if s_["kind"] in inst.convs else "ERR"
                others = [o for o in live.values() if o is not inst and o.convs]
                ctx.classify("conversion_probe", ("registered here" if s_["kind"] in inst.convs else "not registered here") + (", other live engines have conversions" if others else ""))
            elif op == "class":
                script = "class %s { def %s() { } def val() { %d } }; 0" % (name, name, s_["v"] + 2000)
                if name in inst.classes:
                    want = "ERR"
                else:
                    inst.classes[name] = s_["v"] + 2000
                    want = "i32:0"
            elif op == "newobj":
                script = "%s().val()" % name
                want = ("i32:%d" % inst.classes[name]) if name in inst.classes else "ERR"
            elif op == "use":
                script = "use(\"%s%s.chai\"); 0" % (root, s_["file"])
                want = "i32:0"
                if s_["file"] not in inst.used:
                    inst.used.add(s_["file"])
                    want_out = "file-%s\n" % s_["file"]
                if sum(1 for o in live.values() if s_["file"] in o.used) >= 2:
                    nontrivial = True
            elif op == "var":
                script = "var %s = %d; %s" % (name, s_["v"], name)
                if name in loc:
                    want = "ERR"
                else:
                    loc[name] = s_["v"]
                    want = "i32:%d" % s_["v"]
            elif op == "global":
                script = "global %s = %d; 0" % (name, s_["v"])
                inst.globals[name] = s_["v"]
                want = "i32:0"
            elif op == "def":
                script = "def %s() { %d }; 0" % (name, s_["v"] + 1000)
                if name in inst.funcs:
                    want = "ERR"
                else:
                    inst.funcs[name] = s_["v"] + 1000
                    want = "i32:0"
            elif op == "probe":
                script = name
                want = ("i32:%d" % loc[name]) if name in loc else ("i32:%d" % inst.globals[name]) if name in inst.globals else "fn" if name in inst.funcs else "ERR"
            else:
                script = "%s()" % name
                # a local or global int of that name is found first and is not callable
                want = "ERR" if (name in loc or name in inst.globals) else ("i32:%d" % inst.funcs[name]) if name in inst.funcs else "ERR"
            if th in used_slot_threads.get(slot, {}).get("earlier", set()):
                nontrivial = True
            if name is not None and sum(1 for o in live.values() if name in o.globals or name in o.funcs or any(name in l for l in o.locals.values())) >= 2:
                nontrivial = True
            used_slot_threads.setdefault(slot, {"earlier": set(), "current": set()})["current"].add(th)
            trace.append("slot %d T%d: %s" % (slot, th, script))
            r = ctx.request({"cmd": "c14", "op": "eval", "slot": slot, "thread": th, "script": script})
            got = "ERR" if "exc" in r else r["res"]["r"]
            if got != want:
                raise Violation("step %d (%s): engine answers %s, the model of this engine instance says %s" % (k, trace[-1], got if got != "ERR" else "error: %s" % (r["exc"].get("reason") or r["exc"].get("kind")), want),
                                {"trace": trace})
            if op == "use" and r.get("out", "") != want_out:
                raise Violation("step %d (%s): the file printed %r, the model of this engine instance says %r (a file is evaluated by the first use() in each engine)" % (
                    k, trace[-1], r.get("out", ""), want_out), {"trace": trace})
            got_locals = sorted(n for n in r["locals"] if n in NAMES)
            if got_locals != sorted(loc):
                raise Violation("step %d (%s): get_locals() on this thread shows %s, the model says %s" % (k, trace[-1], got_locals, sorted(loc)), {"trace": trace})
            # bookkeeping for non-triviality: threads that touched an instance which has since been replaced
        ctx.sample({"history": trace[:16]}, limit=1)
        if nontrivial:
            ctx.nontrivial(tuple(trace))
    finally:
        try:
            ctx.request({"cmd": "c14", "op": "reset", "slot": 0, "thread": 0})
        except (Violation, hyp.Inconclusive):
            pass


def root_cause(f):
    return "locals" if "get_locals" in f["what"] else "probe"


def main(tier):
    vlib.ensure_built("runner")
    ev = vlib.Evidence(PID, tier)
    ev.cov["rule"] = RULE
    ev.assumptions = ["the four threads of a history live from its first step to its end, i.e. across every engine of the history (thread-local state of its dead engines is therefore still around); "
                      "they are ended before the next history so that every reported history is self-contained",
                      "operations of one history are executed one at a time (concurrency is C13's subject)"]
    n = 1600 if tier == "quick" else 30000
    failures = hyp.run("c14", ev, tier, n)
    confirmed = hyp.confirm("c14", failures, PID)
    for p, what in confirmed:
        vlib.violation(PID, p, what)
    vlib.finish(ev, len(confirmed))


def replay(path):
    vlib.ensure_built("runner")
    return hyp.replay("c14", path)
