"""C20 - run-time errors point at the construct that failed.

Multi-chunk programs (files + eval() chunks with caller-supplied names) whose functions call each other across chunks, laid
out with random blank lines, comments, tabs, LF/CRLF; exactly one injected fault at a known (file, line, column, depth).
The layout engine knows the byte-accurate 1-based position of every token it placed.
"""
import os

from hypothesis import strategies as st

import hyp
import vlib
from hyp import Violation

PID = "C20"
RULE = ("1-4 chunks (files evaluated with eval_file and strings evaluated with eval(text, name)), a chain of 1-5 functions calling each other across "
        "chunks, random blank lines, //, # and /* multi-line */ comments before and inside lines, tabs, LF or CRLF per chunk, call sites as bare "
        "statements / initialisers / operands / return values, inside blocks, loops and if bodies; one fault: unresolvable identifier (bare, callee, "
        "argument, operand) or a call no overload accepts (arity, type, unknown method). Oracle: the layout engine's positions: call_stack[0] is the "
        "failing construct's (file, line, column); the Fun_Call entries of call_stack are, innermost first, exactly the generated call sites. "
        "non-trivial = depth>=2, or a fault line preceded by CRLF / a multi-line comment / a blank run, or a fault outside the top-level chunk; "
        "distinct = distinct program layouts")

FAULTS = ["id_bare", "id_callee", "id_arg", "id_operand", "arity", "type", "method"]
CALL_FORMS = ["bare", "init", "operand", "ret", "arg", "in_if", "in_loop", "in_block", "bare_then_more"]


@st.composite
def cases(draw):
    depth = draw(st.integers(1, 5))
    nchunks = draw(st.integers(1, 4))
    funcs = []
    for i in range(depth):
        funcs.append({"chunk": draw(st.integers(0, nchunks - 1)), "form": draw(st.sampled_from(CALL_FORMS)), "pre": draw(layout_noise()), "indent": draw(st.sampled_from(["", "  ", "\t", "    ", " \t "])),
                      "inline_comment": draw(st.booleans()), "filler": draw(st.integers(0, 2))})
    return {"depth": depth, "chunks": [{"kind": draw(st.sampled_from(["file", "eval"])), "crlf": draw(st.booleans()), "lead": draw(layout_noise())} for _ in range(nchunks)],
            "funcs": funcs, "fault": draw(st.sampled_from(FAULTS)), "top": {"form": draw(st.sampled_from(CALL_FORMS)), "pre": draw(layout_noise()), "indent": draw(st.sampled_from(["", "  ", "\t"])),
                                                                             "inline_comment": draw(st.booleans())},
            "fault_pre": draw(layout_noise()), "fault_indent": draw(st.sampled_from(["", "   ", "\t\t", " "]))}


def layout_noise():
    return st.lists(st.sampled_from(["", "", "// line comment", "# hash comment", "/* block */", "/* multi", "   ", "\t", "var filler_%d = 1"]), max_size=4)


def strategy():
    return cases()


class Chunk:
    """accumulates lines and knows the position of what it places"""
    def __init__(self, name, crlf):
        self.name, self.crlf = name, crlf
        self.lines = []
        self.filler = 0

    def noise(self, items):
        for it in items:
            if it.strip() == "/* multi":
                self.lines += [it, "   line", "   comment */"]
            elif it.startswith("var filler"):
                self.filler += 1
                self.lines.append("var filler_%s_%d = %d" % (self.name.replace(".", "_").replace("/", "_")[-12:], self.filler + len(self.lines), self.filler))
            else:
                self.lines.append(it)

    def place(self, prefix, token_line_rest):
        """append a line `prefix + rest`; returns (line, col) of the first byte of rest"""
        self.lines.append(prefix + token_line_rest)
        return len(self.lines), len(prefix.encode("latin-1")) + 1

    def text(self):
        return ("\r\n" if self.crlf else "\n").join(self.lines) + ("\r\n" if self.crlf else "\n")


def call_line(form, callee_expr, inline_comment):
    """-> (list of lines before, prefix on the call line, rest starting at the callee identifier, lines after)"""
    ic = "/* c */ " if inline_comment else ""
    if form == "bare":
        return [], ic, callee_expr, []
    if form == "bare_then_more":
        return [], ic, callee_expr, ["var after_call = 1"]
    if form == "init":
        return [], "var r = " + ic, callee_expr, []
    if form == "operand":
        return [], "var s = 1 + " + ic, callee_expr + " * 2", []
    if form == "ret":
        return [], "return " + ic, callee_expr, []
    if form == "arg":
        return [], "var u = ", "to_string(" + callee_expr + ")", []      # the outer call site begins with an identifier too
    if form == "in_if":
        return ["if (true) {"], "  " + ic, callee_expr, ["}"]
    if form == "in_loop":
        return ["var k = 0", "while (k < 1) {", "  ++k"], "  " + ic, callee_expr, ["}"]
    return ["{"], "  " + ic, callee_expr, ["}"]


def build(c):
    chunks = [Chunk(("f%d.chai" % i) if ch["kind"] == "file" else ("chunk_%d" % i), ch["crlf"]) for i, ch in enumerate(c["chunks"])]
    for ck, ch in zip(chunks, c["chunks"]):
        ck.noise(ch["lead"])
    depth = c["depth"]
    expected_sites = []          # outermost first: (chunk index, line, col)
    fault_pos = None
    extra_fun_call_at_fault = False
    nested_arg_site = {}
    # define functions innermost (deepest) first so that a chunk evaluated earlier never needs a later definition at parse time
    # (ChaiScript resolves names at run time, so the definition order across chunks is free)
    sites = [None] * depth
    for i in reversed(range(depth)):
        f = c["funcs"][i]
        ck = chunks[f["chunk"]]
        ck.noise(f["pre"])
        ck.lines.append("def fun_%d(a) {" % i)
        for k in range(f["filler"]):
            ck.lines.append("  var t%d = a + %d" % (k, k))
        if i == depth - 1:
            # the fault
            ck.noise(["  " + x if x and not x.startswith("var filler") else x for x in c["fault_pre"] if not x.startswith("var filler")])
            ind = "  " + c["fault_indent"]
            ft = c["fault"]
            if ft == "id_bare":
                fault_pos = (f["chunk"],) + ck.place(ind, "zz_missing_name")
            elif ft == "id_callee":
                fault_pos = (f["chunk"],) + ck.place(ind + "var w = ", "zz_missing_fn(a, 1)")
                extra_fun_call_at_fault = True
            elif ft == "id_arg":
                ln, col = ck.place(ind, "to_string(zz_missing_arg)")
                fault_pos = (f["chunk"], ln, col + len("to_string("))
                nested_arg_site["fault_outer"] = (f["chunk"], ln, col)
            elif ft == "id_operand":
                ln, col = ck.place(ind + "var w = a + ", "zz_missing_operand * 2")
                fault_pos = (f["chunk"], ln, col)
            elif ft == "arity":
                fault_pos = (f["chunk"],) + ck.place(ind + "var w = ", "typed_fn(a, 2, 3)")
            elif ft == "type":
                fault_pos = (f["chunk"],) + ck.place(ind, "typed_fn(\"not an int\")")
            else:
                fault_pos = (f["chunk"],) + ck.place(ind + "var w = ", "a.zz_no_such_method(1)")
        else:
            before, prefix, rest, after = call_line(f["form"], "fun_%d(a)" % (i + 1), f["inline_comment"])
            for b in before:
                ck.lines.append("  " + b)
            ln, col = ck.place("  " + f["indent"] + prefix, rest)
            if f["form"] == "arg":
                nested_arg_site[i] = (f["chunk"], ln, col)
                col += len("to_string(")
            sites[i] = (f["chunk"], ln, col)
            for a in after:
                ck.lines.append("  " + a)
            ck.lines.append("  0")
        ck.lines.append("}")
    chunks[0].lines.insert(0, "def typed_fn(int only_int) { only_int }")
    # positions in chunk 0 shift by one line
    def shift(p):
        return (p[0], p[1] + 1, p[2]) if p is not None and p[0] == 0 else p
    sites = [shift(s) for s in sites]
    fault_pos = shift(fault_pos)
    nested_arg_site = {k: shift(v) for k, v in nested_arg_site.items()}
    # the top-level call lives in an extra chunk evaluated last
    top = Chunk("main_chunk", False)
    top.noise(c["top"]["pre"])
    before, prefix, rest, after = call_line(c["top"]["form"] if c["top"]["form"] != "ret" else "init", "fun_0(5)", c["top"]["inline_comment"])
    for b in before:
        top.lines.append(b)
    ln, col = top.place(c["top"]["indent"] + prefix, rest)
    top_arg_site = None
    if c["top"]["form"] == "arg":
        top_arg_site = ("top", ln, col)
        col += len("to_string(")
    top_site = ("top", ln, col)
    for a in after:
        top.lines.append(a)
    top.lines.append("0")
    # expected Fun_Call entries, innermost first
    exp = []
    if extra_fun_call_at_fault or c["fault"] in ("arity", "type"):
        exp.append(fault_pos)
    if "fault_outer" in nested_arg_site:
        exp.append(nested_arg_site["fault_outer"])
    for i in reversed(range(depth - 1)):
        exp.append(sites[i])
        if i in nested_arg_site:
            exp.append(nested_arg_site[i])
    exp.append(top_site)
    if top_arg_site:
        exp.append(top_arg_site)
    return chunks, top, fault_pos, exp


def check(c, ctx):
    chunks, top, fault_pos, exp = build(c)
    root = vlib.workdir("c20_%d_%d" % (os.getpid(), ctx.idx))
    names = []
    eid = ctx.request({"cmd": "new", "opt": True})["id"]
    try:
        for ck, ch in zip(chunks, c["chunks"]):
            text = ck.text()
            if ch["kind"] == "file":
                path = os.path.join(root, ck.name)
                with open(path, "wb") as f:
                    f.write(vlib.s2b(text))
                names.append(path)
                r = ctx.request({"cmd": "eval_file", "id": eid, "path": path})
            else:
                names.append(ck.name)
                r = ctx.request({"cmd": "eval", "id": eid, "script": text, "fname": ck.name})
            if "exc" in r:
                raise hyp.Inconclusive("a definition chunk failed: %s" % (r["exc"].get("reason") or r["exc"].get("kind")))
        r = ctx.request({"cmd": "eval", "id": eid, "script": top.text(), "fname": "main_chunk"})
    finally:
        try:
            ctx.request({"cmd": "del", "id": eid})
        except (Violation, hyp.Inconclusive):
            pass
    listing = "\n".join("--- %s%s ---\n%s" % (ck.name, " (CRLF)" if ck.crlf else "", ck.text().replace("\r", "")) for ck in chunks + [top])

    def fname(ci):
        return "main_chunk" if ci == "top" else names[ci]
    fchunk = chunks[fault_pos[0]]
    before = fchunk.lines[:fault_pos[1] - 1]
    tricky = fchunk.crlf or any("multi" in l or l.strip() == "" for l in before[-4:]) or c["depth"] >= 2
    if tricky:
        ctx.nontrivial(listing)
    ctx.classify("fault", c["fault"])
    ctx.classify("depth", str(c["depth"]))
    ctx.sample({"program": listing, "fault_at": [fname(fault_pos[0]), fault_pos[1], fault_pos[2]]}, limit=1)
    if "exc" not in r or r["exc"]["kind"] != "eval_error":
        raise Violation("the injected fault did not raise eval_error: %s" % (r.get("exc") or r.get("res")), {"program": listing})
    st_ = r["exc"]["stack"]
    if not st_:
        raise Violation("eval_error carries an empty call stack", {"program": listing})
    got0 = (st_[0]["file"], st_[0]["line"], st_[0]["col"])
    want0 = (fname(fault_pos[0]), fault_pos[1], fault_pos[2])
    if got0 != want0:
        raise Violation("the failing construct is reported at %s:%d:%d, it begins at %s:%d:%d" % (got0 + want0), {"program": listing, "stack": st_})
    calls = [(f["file"], f["line"], f["col"]) for f in st_ if f["id"] in ("Fun_Call", "Unused_Return_Fun_Call")]
    want = [(fname(p[0]), p[1], p[2]) for p in exp]
    if calls != want:
        raise Violation("call stack lists the call sites %s, the active call sites are %s" % (calls, want), {"program": listing, "stack": st_})


def root_cause(f):
    return f["what"][:30]


def main(tier):
    vlib.ensure_built("runner")
    ev = vlib.Evidence(PID, tier)
    ev.cov["rule"] = RULE
    ev.assumptions = ["columns are counted in bytes, a tab is one column; only start positions and file names are compared",
                      "every generated call site begins with an identifier (the property's restriction)"]
    n = 6000 if tier == "quick" else 90000
    failures = hyp.run("c20", ev, tier, n)
    confirmed = hyp.confirm("c20", failures, PID)
    for p, what in confirmed:
        vlib.violation(PID, p, what)
    vlib.finish(ev, len(confirmed))


def replay(path):
    vlib.ensure_built("runner")
    return hyp.replay("c20", path)
