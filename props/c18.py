"""C18 - JSON conversion round-trips and tolerates any input.
(a) Hypothesis value trees through the runner (from_json(to_json(v)) == v, structural comparison in C++);
(b) libFuzzer on from_json with an in-target round-trip oracle (fuzz/json.cpp); (c) deterministic nesting enumeration.
"""
import glob
import os
import random
import shutil

from hypothesis import strategies as st

import c01
import fuzzlib
import hyp
import vlib
from hyp import Violation

PID = "C18"
RULE = ("(a) generated value trees (depth<=5, width<=6) of int64 (full range), bool, null, strings over all byte values, vectors, string-keyed maps: "
        "from_json(to_json(v)) must equal v structurally; non-trivial = a string needing an escape or depth>=3. (b) arbitrary/mutated bytes into "
        "from_json under libFuzzer: returns or throws std::exception, accepted texts satisfy from_json(to_json(from_json(t))) == from_json(t) "
        "(floats to 1e-6; non-finite numbers excluded and counted); non-trivial = accepted, or rejected after >=2 tokens. (c) nesting "
        "enumeration ('[', '{\"a\":', mixed) up to depth 10^6 in the ASan build and in g++ -O2 under a 1 MiB stack")

INTS = st.one_of(st.integers(-2**63, 2**63 - 1), st.integers(-5, 5), st.sampled_from([0, -1, 2**31, -2**31 - 1, 2**63 - 1, -2**63, 10**18]))
BYTES_STR = st.one_of(
    st.text(alphabet=[chr(c) for c in range(256)], max_size=8),
    st.lists(st.sampled_from(['"', "\\", "/", "\b", "\f", "\n", "\r", "\t", "\x00", "\x01", "\x7f", "\x80", "\xff", "u", "\\u0041", "a", " ", "{", "]", ","]), max_size=6).map("".join))


def tree(depth):
    leaf = st.one_of(INTS.map(lambda v: {"t": "int", "v": str(v)}), st.booleans().map(lambda b: {"t": "bool", "v": b}), st.just({"t": "null"}),
                     BYTES_STR.map(lambda s: {"t": "str", "v": s}))
    if depth <= 0:
        return leaf
    sub = st.deferred(lambda: tree(depth - 1))
    return st.one_of(leaf, leaf,
                     st.lists(sub, max_size=5).map(lambda v: {"t": "vec", "v": v}),
                     st.lists(st.tuples(BYTES_STR, sub), max_size=5).map(lambda kv: {"t": "map", "v": [{"k": k, "e": e} for k, e in kv]}))


POISON = [None, None, '"trunc', '{"k": "abc', '"\\u12', '[1, "x', '{"key', '"a\\', "[", "nul", '{"a" "b"}']


def strategy():
    # "poison": a text that from_json rejects, parsed on the same engine/thread just before the round trip (state must not leak between calls)
    return st.fixed_dictionaries({"tree": tree(4), "poison": st.sampled_from(POISON)})


def tree_depth(t):
    if t["t"] == "vec":
        return 1 + max([tree_depth(e) for e in t["v"]] or [0])
    if t["t"] == "map":
        return 1 + max([tree_depth(e["e"]) for e in t["v"]] or [0])
    return 0


def needs_escape(t):
    if t["t"] == "str":
        return any(c in t["v"] for c in '"\\\b\f\n\r\t') or any(ord(c) < 0x20 for c in t["v"])
    if t["t"] == "vec":
        return any(needs_escape(e) for e in t["v"])
    if t["t"] == "map":
        return any(needs_escape(e["e"]) or needs_escape({"t": "str", "v": e["k"]}) for e in t["v"])
    return False


def _engine(ctx):
    st_ = getattr(ctx, "_c18", None)
    if st_ is None or st_[0] != ctx.runner.restarts or st_[2] > 300:
        if st_ is not None and st_[0] == ctx.runner.restarts:
            ctx.request({"cmd": "del", "id": st_[1]})
        st_ = [ctx.runner.restarts, ctx.request({"cmd": "new", "opt": True})["id"], 0]
        ctx._c18 = st_
    st_[2] += 1
    return st_[1]


def check(c, ctx):
    t = c["tree"]
    if tree_depth(t) >= 3 or needs_escape(t):
        ctx.nontrivial(repr(t))
    rq = {"cmd": "c18", "id": _engine(ctx), "tree": t}
    if c.get("poison"):
        rq["poison"] = c["poison"]
        ctx.classify("poisoned", "yes")
    r = ctx.request(rq)
    ctx.sample({"value": r.get("orig", "")[:200], "json": r.get("json", "")[:200]}, limit=2)
    if "exc" in r:
        raise Violation("%s raised %s (%s) for value %s" % (r["stage"], r["exc"].get("kind"), r["exc"].get("what"), r["orig"][:300]), {"reply": r})
    if not r["equal"] or r["orig"] != r["back"]:
        raise Violation("from_json(to_json(v)) != v: v = %s, json = %s, back = %s" % (r["orig"][:300], r["json"][:300], r["back"][:300]), {"reply": r})


def root_cause(f):
    return f["what"][:25]


JSON_DICT = ['"', "\\", "\\u", "\\u0041", "true", "false", "null", "[", "]", "{", "}", ":", ",", "-", "1e", "e+", ".5", "0.", "1E400", "-0", "\\\"", "\\/", "{\"a\":", "[[", "]]",
             "1e-400", "123456789012345678901234567890", "\\b", "\\q", " ", "\n"]


def nest_cases(depths):
    cases = []
    for n in depths:
        cases.append(("array/%d/open" % n, "[" * n))
        cases.append(("array/%d/balanced" % n, "[" * n + "]" * n))
        cases.append(("array/%d/short" % n, "[" * n + "1" + "]" * (n - 1)))
        cases.append(("object/%d/open" % n, '{"a":' * n))
        cases.append(("object/%d/balanced" % n, '{"a":' * n + "1" + "}" * n))
        cases.append(("mixed/%d/balanced" % n, '[{"k":' * n + "null" + "}]" * n))
        cases.append(("mixed/%d/open" % n, '[{"k":' * n))
        cases.append(("strings/%d" % n, "[" + ",".join('"%d"' % i for i in range(min(n, 20000))) + "]"))
        cases.append(("keypos_array/%d" % n, "{[" * n))                 # nesting through the key position of objects
        cases.append(("keypos_object/%d" % n, "{" * n))
        cases.append(("keypos_mixed/%d" % n, '{"a":{[' * n))
        cases.append(("array_of_objects/%d" % n, '[{"a":[' * n))
    return cases


def main(tier):
    bins = vlib.ensure_built("runner", "fuzz_json", "json_oracle", "json_plain")
    ev = vlib.Evidence(PID, tier)
    ev.cov["rule"] = RULE
    ev.assumptions = ["structural equality is computed in C++ (common/json_equiv.hpp); floats compared to 1e-6 abs/rel; texts whose numbers become inf/NaN are excluded and counted",
                      "libFuzzer timeouts/ooms are inconclusive"]
    wd = vlib.fresh_workdir("c18")
    seed = vlib.seed()
    viol = []

    def report(raw, what, how):
        p = vlib.save_replay(PID, {"property": PID, "what": what, "found_by": how, "input_latin1": vlib.b2s(raw)[:2000], "bytes": len(raw)}, raw=raw, ext="bin")
        viol.append((p, what))

    # regress
    regress = sorted(glob.glob(os.path.join(vlib.VERIF, "corpus", PID, "regress", "*")))
    for p in regress:
        ev.count("evaluations")
        bad, txt = c01.replay_file(bins["json_oracle"], p, times=1)
        if bad and c01.replay_file(bins["json_oracle"], p)[0]:
            report(open(p, "rb").read(), c01.oracle_line(txt), "regress")

    # (c) nesting
    depths = [16, 512, 20000, 200000] + ([1000000] if tier == "thorough" else [])
    cases = nest_cases(depths)
    for tag, binary, stack in (("asan", bins["json_oracle"], None), ("plain1m", bins["json_plain"], 1024)):
        todo = list(cases)
        while todo:
            res = c01.run_batch(binary, todo, "c18" + tag, stack_kb=stack)
            if res is None:
                break
            idx, err = res
            if idx < 0:
                raise SystemExit("json nesting batch failed before the first case: " + err[-400:])
            name, txt = todo[idx]
            tmp = os.path.join(wd, "nest.bin")
            open(tmp, "wb").write(vlib.s2b(txt))
            ok3, t3 = c01.replay_file(binary, tmp, stack_kb=stack)
            if ok3:
                report(vlib.s2b(txt), "nesting case %s (%s build): %s" % (name, tag, c01.oracle_line(t3)), "nesting")
            todo = todo[idx + 1:]
        ev.count("evaluations", len(cases))
    for name, _ in cases:
        ev.nontrivial(("nest", name))
    ev.cov["nesting_cases"] = len(cases)

    # (b) fuzz
    dict_path = os.path.join(wd, "dict.txt")
    c01_dict = c01.DICT
    c01.DICT = JSON_DICT
    c01.write_dict(dict_path)
    c01.DICT = c01_dict
    seeds = os.path.join(wd, "seeds")
    os.makedirs(seeds)
    rng = random.Random(seed)
    docs = ['{"a": [1, 2.5, "x", null, true], "b": {"c": -3e2}}', "[]", "{}", '"\\u0041\\n"', "-12.5e-3", '[[[[1]]]]', '{"":""}', "[1,2,3", '{"a":}', "nul"]
    for i, d in enumerate(docs):
        open(os.path.join(seeds, "s%d" % i), "w").write(d)
    for p in glob.glob(os.path.join(vlib.REPO, "unittests", "json_*.chai")):
        shutil.copy(p, seeds)
    secs = 40 if tier == "quick" else 600
    agg, samples, artifacts, inconclusive = fuzzlib.campaign(bins["fuzz_json"], wd, vlib.NCPU, secs, seed, dict_path, seeds, max_lens=(512, 4096))
    for art in artifacts:
        ok3, t3 = c01.replay_file(bins["json_oracle"], art)
        if ok3:
            report(open(art, "rb").read(), c01.oracle_line(t3), "libFuzzer")
        else:
            ev.count("unreproducible_artifacts")
    ev.count("evaluations", agg.get("execs", 0))
    ev.cov["distinct_nontrivial"] = agg.get("distinct_nontrivial", 0)
    ev.cov["fuzz"] = agg
    ev.cov["inconclusive_timeout_or_oom"] = inconclusive
    for s in samples[:6]:
        ev.sample({"kind": "fuzz", "input_latin1": s})

    # (a) Hypothesis
    n = 6000 if tier == "quick" else 100000
    failures = hyp.run("c18", ev, tier, n)
    confirmed = hyp.confirm("c18", failures, PID)

    seen = {}
    for p, what in viol:
        key = what.split("(")[0][:50]
        if key not in seen or os.path.getsize(p) < os.path.getsize(seen[key][0]):
            seen[key] = (p, what)
    allv = list(seen.values()) + confirmed
    for p, what in allv:
        vlib.violation(PID, p, what)
    vlib.finish(ev, len(allv))


def replay(path):
    bins = vlib.ensure_built("runner", "json_oracle", "json_plain")
    if path.endswith(".json"):
        return hyp.replay("c18", path)
    bad, txt = c01.replay_file(bins["json_oracle"], path, times=1)
    bad2, txt2 = c01.replay_file(bins["json_plain"], path, times=1, stack_kb=1024)
    print(("FAILS: " + c01.oracle_line(txt if bad else txt2)) if (bad or bad2) else "passes")
    return 1 if (bad or bad2) else 0
