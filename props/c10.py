"""C10 - exceptions are delivered, not lost or altered.

Generated nests of try / catch(typed|untyped) / finally inside frames (def, lambda, method, bind, for_each callback,
attribute-held function), thrown kinds from script and from C++; oracle = a small Python model of propagation that
predicts the marker trace and what (if anything) leaves eval.
"""
from hypothesis import strategies as st

import hyp
import vlib
from hyp import Violation

PID = "C10"
RULE = ("nests (depth<=4) of try with 0-3 catch clauses (untyped or typed int/string/script class/other class/Dynamic_Object/exception/runtime_error/"
        "out_of_range/logic_error/eval_error) and optional finally, inside frames {def, lambda, method, bind, for_each callback, attribute-held "
        "function}; throw points: script throw of int/string/class instance/runtime_error, C++ functions throwing std::runtime_error/out_of_range/"
        "logic_error/a user std::exception subclass/a non-std class/int, a failed dispatch, 1/0; also from catch and finally bodies; evaluated with and "
        "without an exception_specification. Oracle = Python propagation model (first matching clause, finally exactly once on every path, nothing "
        "after the throw point runs, escape with the original type). non-trivial = the exception crosses >=1 frame boundary or >=1 non-matching "
        "clause before being caught or escaping; distinct = distinct program texts")

THROWS = ["s_int", "s_str", "s_obj", "s_rte", "c_rte", "c_oor", "c_logic", "c_user", "c_foreign", "c_int", "dispatch", "divzero"]
CTYPES = [None, None, "int", "string", "Ex", "Other", "Dynamic_Object", "exception", "runtime_error", "out_of_range", "logic_error", "eval_error"]
FRAMES = ["def", "lambda", "method", "bind", "for_each", "attr", "none", "none"]

THROW_SRC = {
    "s_int": "throw(1)", "s_str": "throw(\"s\")", "s_obj": "throw(Ex())", "s_rte": "throw(runtime_error(\"m\"))",
    "c_rte": "thr(\"runtime_error\")", "c_oor": "thr(\"out_of_range\")", "c_logic": "thr(\"logic_error\")", "c_user": "thr(\"user\")",
    "c_foreign": "thr(\"foreign\")", "c_int": "thr(\"int\")", "dispatch": "\"a\".no_such_method_at_all(1)", "divzero": "print(1/0)",
}
# what a clause of the given type does with a thrown kind: True / False / None (not settled by the documentation: such pairs make a case inconclusive)
MATCH = {
    "s_int": {"int"}, "s_str": {"string"}, "s_obj": {"Ex", "Dynamic_Object"}, "s_rte": {"runtime_error", "exception"},
    "c_rte": {"runtime_error", "exception"}, "c_oor": {"out_of_range", "logic_error", "exception"}, "c_logic": {"logic_error", "exception"}, "c_user": {"exception"},
    "dispatch": {"eval_error", "runtime_error", "exception"}, "divzero": {"runtime_error", "exception"},
    "c_foreign": set(), "c_int": set(),
}
AMBIGUOUS = set()   # every (thrown kind, clause type) pair is settled: a clause matches the dynamic type or one of its registered bases
ESCAPE = {
    "s_int": ("boxed", "i32:1"), "s_str": ("boxed", 'str:"s"'), "s_obj": ("boxed", "Ex{}"), "s_rte": ("boxed", None),
    "c_rte": ("std::runtime_error", None), "c_oor": ("std::out_of_range", None), "c_logic": ("std::logic_error", None), "c_user": ("user_err", None),
    "c_foreign": ("foreign", None), "c_int": ("int", None), "dispatch": ("eval_error", None), "divzero": ("arithmetic_error", None),
}


def block(depth):
    stmt = st.deferred(lambda: statement(depth))
    return st.lists(stmt, min_size=0, max_size=3)


def statement(depth):
    leaf = st.one_of(st.just({"k": "mark"}), st.just({"k": "mark"}), st.sampled_from(THROWS).map(lambda t: {"k": "throw", "t": t}))
    if depth <= 0:
        return leaf
    tr = st.fixed_dictionaries({
        "k": st.just("try"),
        "body": block(depth - 1),
        "catches": st.lists(st.fixed_dictionaries({"type": st.sampled_from(CTYPES), "body": block(depth - 2)}), max_size=3),
        "fin": st.one_of(st.none(), block(depth - 2)),
    })
    call = st.fixed_dictionaries({"k": st.just("call"), "frame": st.sampled_from(FRAMES), "body": block(depth - 1)})
    return st.one_of(leaf, tr, tr, call)


def strategy():
    return st.fixed_dictionaries({"prog": block(4), "espec": st.booleans()})


class Gen:
    """numbers markers, hoists function/class definitions, produces program text"""
    def __init__(self):
        self.n = 0
        self.defs = []
        self.uid = 0

    def mark(self):
        self.n += 1
        return self.n

    def emit_block(self, blk, ind):
        out = []
        for s in blk:
            out += self.emit_stmt(s, ind)
        return out

    def emit_stmt(self, s, ind):
        p = "  " * ind
        if s["k"] == "mark":
            s["id"] = self.mark()
            return ["%sprint(\"m%d\")" % (p, s["id"])]
        if s["k"] == "throw":
            s["id"] = self.mark()
            return ["%sprint(\"m%d\")" % (p, s["id"]), p + THROW_SRC[s["t"]]]
        if s["k"] == "try":
            out = [p + "try {"] + self.emit_block(s["body"], ind + 1)
            if not s["catches"] and s["fin"] is None:
                # a try needs a handler or a finally to parse; give it an empty finally
                s["fin"] = []
            for c in s["catches"]:
                self.uid += 1
                head = "catch(e%d)" % self.uid if c["type"] is None else "catch(%s e%d)" % (c["type"], self.uid)
                out += [p + "} " + head + " {"] + self.emit_block(c["body"], ind + 1)
            if s["fin"] is not None:
                out += [p + "} finally {"] + self.emit_block(s["fin"], ind + 1)
            out.append(p + "}")
            return out
        if s["k"] == "call":
            self.uid += 1
            u = self.uid
            fr = s["frame"]
            if fr == "none":
                return [p + "{"] + self.emit_block(s["body"], ind + 1) + [p + "}"]
            if fr == "lambda":
                return [p + "fun() {"] + self.emit_block(s["body"], ind + 1) + [p + "}()"]
            if fr == "for_each":
                return [p + "for_each([0], fun(x%d) {" % u] + self.emit_block(s["body"], ind + 1) + [p + "})"]
            if fr == "attr":
                return [p + "var o%d = Dynamic_Object(); o%d.f = fun() {" % (u, u)] + self.emit_block(s["body"], ind + 1) + [p + "}; o%d.f()" % u]
            body = self.emit_block(s["body"], 1)
            if fr == "def":
                self.defs += ["def f%d() {" % u] + body + ["}"]
                return [p + "f%d()" % u]
            if fr == "bind":
                self.defs += ["def g%d(a) {" % u] + body + ["}"]
                return [p + "bind(g%d, _)(0)" % u]
            if fr == "method":
                self.defs += ["class K%d { def K%d() { } def run() {" % (u, u)] + body + ["} }"]
                return [p + "K%d().run()" % u]
        raise AssertionError(s)


class Exc:
    def __init__(self, kind):
        self.kind = kind


class Unsettled(Exception):
    pass


class Model:
    def __init__(self):
        self.trace = []
        self.crossed = False   # an exception crossed a frame boundary or skipped a non-matching clause

    def run_block(self, blk, in_frame_depth=0):
        for s in blk:
            r = self.run_stmt(s)
            if r is not None:
                return r
        return None

    def run_stmt(self, s):
        if s["k"] == "mark":
            self.trace.append("m%d" % s["id"])
            return None
        if s["k"] == "throw":
            self.trace.append("m%d" % s["id"])
            return Exc(s["t"])
        if s["k"] == "call":
            r = self.run_block(s["body"])
            if r is not None and s["frame"] != "none":
                self.crossed = True
            return r
        if s["k"] == "try":
            r = self.run_block(s["body"])
            if r is not None and r.kind not in ("c_foreign", "c_int"):
                for c in s["catches"]:
                    if c["type"] is None:
                        hit = True
                    else:
                        if (r.kind, c["type"]) in AMBIGUOUS:
                            raise Unsettled()
                        hit = c["type"] in MATCH[r.kind]
                    if hit:
                        r = self.run_block(c["body"])
                        break
                    self.crossed = True
            if s["fin"] is not None:
                f = self.run_block(s["fin"])
                if f is not None:
                    r = f
            return r
        raise AssertionError(s)


def build(c):
    g = Gen()
    main = g.emit_block(c["prog"], 0)
    text = "class Ex { def Ex() { } }\nclass Other { def Other() { } }\n" + "\n".join(g.defs) + "\n" + "\n".join(main) + "\nprint(\"end\")\n"
    return text


def check(c, ctx):
    import json
    c = json.loads(json.dumps(c))   # private, unshared node objects (marker ids are stored in the nodes)
    text = build(c)
    M = Model()
    try:
        r = M.run_block(c["prog"])
    except Unsettled:
        raise hyp.Inconclusive("clause/thrown-type pair not settled by the documentation")
    if r is None:
        M.trace.append("end")
    want_out = "".join(t + "\n" for t in M.trace)
    if r is None:
        want_exc = None
    else:
        want_exc = ESCAPE[r.kind]
        if c["espec"] and r.kind == "s_int":
            want_exc = ("int", None)       # exception_specification<int, const std::out_of_range &> unboxes a thrown int
    if M.crossed:
        ctx.nontrivial(text)
    ctx.classify("escape", "none" if r is None else r.kind)
    ctx.sample({"program": text, "expected_output": want_out, "expected_escape": want_exc}, limit=1)
    res = ctx.request({"cmd": "run", "script": text, "engines": [{"opt": True}], "espec": c["espec"]})["results"][0]
    got_exc = None
    if "exc" in res:
        e = res["exc"]
        got_exc = (e["kind"], e.get("r") if e["kind"] == "boxed" and want_exc and want_exc[1] is not None else None)
    if res["out"] != want_out or got_exc != want_exc:
        raise Violation("output/escape differ from the propagation model: got output %r escape %s; model output %r escape %s" % (
            res["out"], got_exc, want_out, want_exc), {"program": text})


def root_cause(f):
    w = f["what"]
    return "c10"


def main(tier):
    vlib.ensure_built("runner")
    ev = vlib.Evidence(PID, tier)
    ev.cov["rule"] = RULE
    ev.assumptions = ["clause/thrown-type pairs the documentation does not settle (catch(logic_error) for a C++ std::logic_error, catch(Dynamic_Object) for a script "
                      "class instance) make a case inconclusive; a caught exception object is never re-thrown or kept beyond its handler (lifetime, outside the property)",
                      "C++ exceptions of non-std types and non-class C++ throws are not catchable by script clauses and pass through (finally blocks still run)"]
    n = 8000 if tier == "quick" else 120000
    failures = hyp.run("c10", ev, tier, n)
    confirmed = hyp.confirm("c10", failures, PID)
    for p, what in confirmed:
        vlib.violation(PID, p, what)
    vlib.finish(ev, len(confirmed))


def replay(path):
    vlib.ensure_built("runner")
    return hyp.replay("c10", path)
