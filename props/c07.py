"""C07 - const values cannot be modified from script.

Const sources created by the runner with direct C++ handles for read-back; alias chains of length 0-4; a final mutator.
For an alias chain the attempt must raise and the C++ object must be unchanged; for a chain containing a copy the
attempt must succeed and the source must be unchanged.
"""
import json
import os

from hypothesis import strategies as st

import hyp
import vlib
from hyp import Violation

PID = "C07"
RULE = ("const source kinds {literal, const_var value, add_global_const, C++ object shared by const reference / const pointer / shared_ptr<const T>, "
        "functions returning const T& / const T* / const T} x T in {integers of every literal spelling and width, bool, double/float/long double, string, Vector, Map, user class Cell} x alias chains of length 0-4 from "
        "{var &r = c, var r := c, parameter passing, lambda capture, return from function, bind, ranged-for variable, container insertion by reference} "
        "with optional copy steps (var x = c, clone(c)) x final mutator {every assignment operator, ++/--, mutating container/string members, attribute "
        "assignment, harness functions taking T&, T*, shared_ptr<T>}. Oracle: alias chain => the attempt raises and the C++ object (read through the "
        "runner's own pointer) is unchanged and no mutating harness function was entered; chain with a copy => succeeds, source unchanged. "
        "non-trivial = chain length >=1 or a non-operator mutator; distinct = distinct (source, chain, mutator) triples")

# source expression -> (type, snapshot key or None for literals)
SOURCES = {
    "int": [("5", None), ("k_cv_int", "cv_int"), ("k_gc_int", "gc_int"), ("k_i_ref", "i_ref"), ("k_i_ptr", "i_ptr"), ("k_i_sp", "i_sp"), ("ret_int_cref()", "i_ref"), ("(1 + 2)", None), ("-7", None),
            # every spelling / width of integer literal (each is built by a different branch of the literal parser)
            ("0x10", None), ("0b101", None), ("017", None), ("5u", None), ("5l", None), ("5ul", None), ("5ll", None), ("5ull", None), ("2147483648", None),
            ("9223372036854775807", None), ("9223372036854775808", None), ("0xFFFFFFFFFFFFFF00", None), ("18446744073709551000", None), ("0x8000000000000000", None)],
    "bool": [("true", None), ("false", None), ("(1 < 2)", None), ("!true", None)],
    "dbl": [("2.5", None), ("k_cv_dbl", "cv_dbl"), ("k_d_ref", "d_ref"), ("1e3", None), ("2.5f", None), ("2.5l", None), ("-2.5", None), ("1.5e-3", None)],
    "str": [("\"lit\"", None), ("k_cv_str", "cv_str"), ("k_gc_str", "gc_str"), ("k_s_ref", "s_ref"), ("ret_str_cref()", "s_ref"), ("ret_str_cval()", None)],
    "vec": [("k_cv_vec", "cv_vec"), ("k_gc_vec", "gc_vec")],
    "map": [("k_cv_map", "cv_map")],
    "cell": [("k_cv_cell", "cv_cell"), ("k_c_ref", "c_ref"), ("k_c_ptr", "c_ptr"), ("k_c_sp", "c_sp"), ("ret_cell_cref()", "c_ret"), ("ret_cell_cptr()", "c_ret")],
}
# literal spellings whose C++ type is not int / double (the typed harness functions take int& / double&)
OTHER_WIDTH = {"5u", "5l", "5ul", "5ll", "5ull", "2147483648", "9223372036854775807", "9223372036854775808", "0xFFFFFFFFFFFFFF00", "18446744073709551000",
               "0x8000000000000000", "2.5f", "2.5l"}
MUTATORS = {
    "int": ["X = 1", "X += 1", "X -= 1", "X *= 2", "X /= 2", "X %= 2", "X &= 1", "X |= 1", "X ^= 1", "X <<= 1", "X >>= 1", "++X", "--X", "mut_int_ref(X)", "mut_int_ptr(X)", "mut_int_sp(X)", "X := 3"],
    "bool": ["X = false", "X = true", "X := false"],
    "dbl": ["X = 1.0", "X += 1.0", "X *= 2.0", "mut_dbl_ref(X)", "++X"],
    "str": ["X = \"n\"", "X += \"n\"", "X += 'c'", "X.push_back('c')", "X.clear()", "X.insert_at(0, 'i')", "X.erase_at(0)", "mut_str_ref(X)", "mut_str_ptr(X)", "X := \"zz\""],
    "vec": ["X.push_back(1)", "X.pop_back()", "X.clear()", "X.resize(1)", "X.resize(5, 0)", "X.insert_at(0, 1)", "X.erase_at(0)", "X = [9]", "mut_vec_ref(X)", "X.push_back_ref(1)", "X.reserve(10)"],
    "map": ["X.clear()", "X.erase(\"k\")", "X[\"new\"] = 1", "X.insert([\"q\": 2])", "X = [\"z\": 1]", "mut_map_ref(X)"],
    "cell": ["X.set(3)", "X.v = 3", "X.s = \"q\"", "X.append(\"q\")", "X.s += \"q\"", "++X.v", "mut_cell_ref(X)", "mut_cell_ptr(X)", "mut_cell_sp(X)", "X = Cell()"],
}
ALIAS_STEPS = ["ref", "refassign", "param", "capture", "ret", "bind", "container_ref", "attr"]
COPY_STEPS = ["copy", "clone"]
# mutators that do not change a *copy* observably in a way we check, or are rejected on non-const copies for other reasons
OPERATOR_LIKE = ("X =", "X +=", "X -=", "X *=", "X /=", "X %=", "X &=", "X |=", "X ^=", "X <<=", "X >>=", "++X", "--X", "X :=")


@st.composite
def cases(draw):
    t = draw(st.sampled_from(["int", "int", "int", "dbl", "str", "str", "vec", "map", "cell", "cell", "bool"]))
    src, key = draw(st.sampled_from(SOURCES[t]))
    chain = draw(st.lists(st.sampled_from(ALIAS_STEPS + ALIAS_STEPS + COPY_STEPS), max_size=4))
    mut = draw(st.sampled_from(MUTATORS[t]))
    return {"t": t, "src": src, "key": key, "chain": chain, "mut": mut}


def strategy():
    return cases()


def build(c):
    """-> (script lines, has_copy)"""
    lines = ["def idf(x) { return x }", "def apply_to(p, f) { f(p) }"]
    cur = c["src"]
    has_copy = False
    n = 0
    wrap_open, wrap_close = [], []
    for stp in c["chain"]:
        n += 1
        v = "a%d" % n
        if stp == "ref":
            lines.append("var &%s = %s" % (v, cur))
        elif stp == "refassign":
            lines.append("var %s := %s" % (v, cur))
        elif stp == "param":
            wrap_open.append("fun(%s) {" % v)
            wrap_close.insert(0, "}(%s)" % cur)
            lines.append("@OPEN")
        elif stp == "capture":
            lines.append("var &c%d = %s" % (n, cur))
            wrap_open.append("fun[c%d]() { var &%s = c%d;" % (n, v, n))
            wrap_close.insert(0, "}()")
            lines.append("@OPEN")
        elif stp == "ret":
            lines.append("var &%s = idf(%s)" % (v, cur))
        elif stp == "bind":
            wrap_open.append("bind(fun(%s) {" % v)
            wrap_close.insert(0, "}, %s)()" % cur)
            lines.append("@OPEN")
        elif stp == "container_ref":
            lines.append("var box%d = []; box%d.push_back_ref(%s); var &%s = box%d[0]" % (n, n, cur, v, n))
        elif stp == "attr":
            lines.append("var ob%d = Dynamic_Object(); ob%d.held := %s; var &%s = ob%d.held" % (n, n, cur, v, n))
        elif stp == "copy":
            lines.append("var %s = %s" % (v, cur))
            has_copy = True
        else:
            lines.append("var %s = clone(%s)" % (v, cur))
            has_copy = True
        cur = v
    lines.append(c["mut"].replace("X", cur))
    lines.append("0")      # the mutator's own result (often a reference to a local) is not what the enclosing function returns
    # assemble with the nested function wrappers
    out = []
    opens = iter(wrap_open)
    depth = 0
    for ln in lines:
        if ln == "@OPEN":
            out.append("  " * depth + next(opens))
            depth += 1
        else:
            out.append("  " * depth + ln)
    for cl in wrap_close:
        depth -= 1
        out.append("  " * depth + cl)
    return "\n".join(out) + "\n", has_copy


def check(c, ctx):
    script, has_copy = build(c)
    nw = ctx.request({"cmd": "c07", "op": "new"})
    eid, before = nw["id"], nw["before"]
    try:
        r = ctx.request({"cmd": "eval", "id": eid, "script": script})
        now = ctx.request({"cmd": "c07", "op": "snapshot", "id": eid})["now"]
    finally:
        try:
            ctx.request({"cmd": "c07", "op": "del", "id": eid})
        except (Violation, hyp.Inconclusive):
            pass
    key = c["key"]
    nontrivial = len(c["chain"]) >= 1 or not c["mut"].startswith(OPERATOR_LIKE)
    if nontrivial:
        ctx.nontrivial(script)
    ctx.classify("source_type", c["t"])
    ctx.classify("chain", "copy" if has_copy else "alias%d" % len(c["chain"]))
    ctx.sample({"script": script, "expects": "succeeds, source untouched" if has_copy else "raises, object unchanged"}, limit=1)
    changed = [k for k in before if k != "mutator_entries" and before[k] != now[k]]
    if changed:
        raise Violation("const object(s) %s changed: %s -> %s" % (changed, {k: before[k] for k in changed}, {k: now[k] for k in changed}), {"script": script})
    if not has_copy:
        if "_sp(" in c["mut"] and c["t"] in ("int", "dbl"):
            # shared_ptr<T> of an arithmetic type: the dispatcher may convert the const number into a fresh temporary and pass that;
            # the property names references and pointers only -- the source staying unchanged (checked above) is what matters here
            ctx.classify("not_required_to_raise", "shared_ptr of arithmetic")
            return
        if c["src"] in OTHER_WIDTH and ("mut_int_" in c["mut"] or "mut_dbl_" in c["mut"]):
            # a number of another arithmetic type offered to int& / double&: the dispatcher converts it into a fresh temporary and passes that
            # (the const object itself is not handed out; nothing to observe on a literal) -- no claim, as in C06
            ctx.classify("not_required_to_raise", "arithmetic conversion to the parameter type makes a temporary")
            return
        if "exc" not in r:
            raise Violation("a mutation attempt through an alias chain of a const %s did not raise (result %s)" % (c["t"], r["res"]["r"]), {"script": script})
        if now["mutator_entries"] != before["mutator_entries"]:
            raise Violation("a C++ function with a mutable parameter was entered with a const %s" % c["t"], {"script": script})
    else:
        # negative control: mutating a copy is legal (except where the operation itself is invalid for the value, which is not const-related)
        if "exc" in r:
            reason = (r["exc"].get("reason") or r["exc"].get("what") or "")
            # not part of the property (it only says const objects keep their value): `var x = f()` takes over a `const T&` return instead of
            # copying it, so such a "copy" is still a const alias.  Counted, not alarmed on.
            ctx.classify("copy_control", "rejected_as_const" if "const" in reason.lower() else "failed_for_other_reason")
        else:
            ctx.classify("copy_control", "succeeded")


def root_cause(f):
    w = f["what"]
    return w[:35] + json.dumps(f["case"]["chain"][-1:] if f["case"]["chain"] else [])


def known_element_mutation(ctx):
    """recorded finding: elements of a const Vector are assignable (excluded from generation by construction: no element-level mutators)"""
    nw = ctx.request({"cmd": "c07", "op": "new"})
    eid, before = nw["id"], nw["before"]
    r = ctx.request({"cmd": "eval", "id": eid, "script": open(os.path.join(vlib.VERIF, "known", PID, "const_vector_element.chai")).read()})
    now = ctx.request({"cmd": "c07", "op": "snapshot", "id": eid})["now"]
    ctx.request({"cmd": "c07", "op": "del", "id": eid})
    return "exc" not in r and before["gc_vec"] != now["gc_vec"]


def main(tier):
    vlib.ensure_built("runner")
    ev = vlib.Evidence(PID, tier)
    ev.cov["rule"] = RULE
    ev.assumptions = ["element-level mutation through a const Vector/Map (cv[0] = x, front() = x, ranged-for element assignment) is a recorded known finding and is excluded from "
                      "generation by construction (no element-level mutators in the menu); a copy of a Vector shares its element handles, so only structural mutators are used on containers"]
    ctx = hyp.Ctx(0, tier)
    kf = vlib.known_findings(PID)
    for k in kf:
        if k["kind"] == "known" and k.get("sig") == "const-container-element":
            if known_element_mutation(ctx):
                vlib.print_known(PID, k["what"])
            ev.count("known_findings_replayed")
    ctx.close()
    n = 8000 if tier == "quick" else 50000
    failures = hyp.run("c07", ev, tier, n)
    confirmed = hyp.confirm("c07", failures, PID)
    for p, what in confirmed:
        vlib.violation(PID, p, what)
    vlib.finish(ev, len(confirmed))


def replay(path):
    vlib.ensure_built("runner")
    return hyp.replay("c07", path)
