// Brute-force search for identifiers whose chaiscript::utility::hash equals that of a keyword (run at check time,
// uses the tree's own hash function and a keyword list given on the command line).  Prints "keyword collider" lines.
#include <chaiscript/utility/hash.hpp>
#include <atomic>
#include <cstdio>
#include <map>
#include <mutex>
#include <string>
#include <thread>
#include <unordered_map>
#include <vector>
int main(int argc, char **argv) {
  std::unordered_map<std::uint32_t, std::string> targets;
  for (int i = 1; i < argc; ++i) targets[chaiscript::utility::hash(std::string(argv[i]))] = argv[i];
  std::mutex mu;
  std::map<std::string, std::vector<std::string>> found;
  const char alpha[] = "abcdefghijklmnopqrstuvwxyz";
  const int per_target = 2;
  std::atomic<size_t> done{0};
  auto worker = [&](int first) {
    // identifiers of length 6 and 7 over [a-z], first letter fixed per worker
    for (int len = 6; len <= 7; ++len) {
      std::string s(static_cast<size_t>(len), 'a');
      s[0] = alpha[first];
      std::vector<int> idx(static_cast<size_t>(len), 0);
      for (;;) {
        const auto h = chaiscript::utility::hash(s);
        auto it = targets.find(h);
        if (it != targets.end() && it->second != s) {
          std::lock_guard<std::mutex> l(mu);
          auto &v = found[it->second];
          if (static_cast<int>(v.size()) < per_target) v.push_back(s);
          size_t complete = 0;
          for (auto &kv : found) if (static_cast<int>(kv.second.size()) >= per_target) ++complete;
          done = complete;
        }
        if (done.load() >= targets.size()) return;
        int p = len - 1;
        while (p >= 1) {
          if (++idx[static_cast<size_t>(p)] < 26) { s[static_cast<size_t>(p)] = alpha[idx[static_cast<size_t>(p)]]; break; }
          idx[static_cast<size_t>(p)] = 0;
          s[static_cast<size_t>(p)] = 'a';
          --p;
        }
        if (p < 1) break;
      }
    }
  };
  std::vector<std::thread> th;
  for (int f = 0; f < 26; ++f) th.emplace_back(worker, f);
  for (auto &t : th) t.join();
  for (auto &kv : found) for (auto &c : kv.second) std::printf("%s %s\n", kv.first.c_str(), c.c_str());
  return 0;
}
