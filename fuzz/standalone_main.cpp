// Standalone driver for a fuzz target: replays files given on the command line (exit 1 + trap text on violation),
// or with --batch <file> runs every record of a batch file (records: decimal length, newline, bytes).
#include <cstdint>
#include <cstdio>
#include <cstring>
#include <fstream>
#include <iostream>
#include <sstream>
#include <string>
extern "C" int LLVMFuzzerTestOneInput(const uint8_t *data, size_t size);
int main(int argc, char **argv) {
  if (argc >= 3 && std::strcmp(argv[1], "--batch") == 0) {
    std::ifstream f(argv[2], std::ios::binary);
    std::string line;
    long n = 0;
    while (std::getline(f, line)) {
      const size_t len = std::stoul(line);
      std::string buf(len, '\0');
      f.read(&buf[0], static_cast<std::streamsize>(len));
      f.get();
      std::fprintf(stderr, "CASE %ld\n", n);
      LLVMFuzzerTestOneInput(reinterpret_cast<const uint8_t *>(buf.data()), buf.size());
      ++n;
    }
    std::fprintf(stderr, "BATCH-DONE %ld\n", n);
    return 0;
  }
  for (int i = 1; i < argc; ++i) {
    std::ifstream f(argv[i], std::ios::binary);
    std::stringstream ss;
    ss << f.rdbuf();
    const std::string s = ss.str();
    LLVMFuzzerTestOneInput(reinterpret_cast<const uint8_t *>(s.data()), s.size());
  }
  return 0;
}
