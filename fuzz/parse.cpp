// libFuzzer target for C01 (semantic oracle inside the target) -- also linked into the standalone replay/batch binary.
#include "common/parse_oracle.hpp"
#include "common/fuzz_support.hpp"

static verif::ParseOracle *g_oracle = nullptr;
static verif::FuzzReport g_report("C01");

static void dump_stats() {
  if (!g_oracle) return;
  const auto &s = g_oracle->stats;
  std::ostringstream o;
  o << "{\"execs\":" << s.execs << ",\"accepted_file\":" << s.accepted_file << ",\"accepted_noop\":" << s.accepted_noop
    << ",\"rejected\":" << s.rejected << ",\"nontrivial\":" << s.nontrivial << ",\"distinct_nontrivial\":" << g_report.distinct()
    << ",\"lexer_checked\":" << s.lexer_checked << ",\"junk_checked\":" << s.junk_checked << ",\"illegal_checked\":" << s.illegal_checked
    << ",\"with_string\":" << s.with_string << ",\"with_escape\":" << s.with_escape
    << ",\"depth_buckets\":[" << s.depth_buckets[0] << "," << s.depth_buckets[1] << "," << s.depth_buckets[2] << "," << s.depth_buckets[3] << "," << s.depth_buckets[4] << "]"
    << ",\"reject_msgs\":{";
  bool first = true;
  for (const auto &kv : s.reject_msgs) { o << (first ? "" : ",") << verif::jstr(kv.first) << ":" << kv.second; first = false; }
  o << "},\"samples\":" << g_report.samples_json() << "}";
  g_report.write_stats(o.str());
}

extern "C" int LLVMFuzzerTestOneInput(const uint8_t *data, size_t size) {
  if (!g_oracle) {
    g_oracle = new verif::ParseOracle();
    std::atexit(dump_stats);
  }
  const std::string input(reinterpret_cast<const char *>(data), size);
  const std::string v = g_oracle->check(input);
  if (g_oracle->last_nontrivial) g_report.note_nontrivial(input);
  static const bool verbose = std::getenv("VERIF_VERBOSE") != nullptr;
  if (verbose) std::fprintf(stderr, "OUTCOME %s %s\n", g_oracle->last_outcome == verif::Outcome::File ? "file" : g_oracle->last_outcome == verif::Outcome::Noop ? "noop" : "rejected", g_oracle->last_error.c_str());
  if (!v.empty()) {
    g_report.violation(input, v);
    dump_stats();
    __builtin_trap();
  }
  return 0;
}
