// libFuzzer target for C18 (b): from_json on arbitrary bytes.  In-target oracle: the call returns or throws std::exception;
// an accepted text t satisfies from_json(to_json(from_json(t))) == from_json(t) (floats to 1e-6), and to_json succeeds.
#include <chaiscript/chaiscript_basic.hpp>
#include "common/fuzz_support.hpp"
#include "common/json_equiv.hpp"
#include "lib/verif_lib.hpp"

using chaiscript::Boxed_Value;
static chaiscript::ChaiScript_Basic *g_chai = nullptr;
static std::function<Boxed_Value(const std::string &)> g_from;
static std::function<std::string(const Boxed_Value &)> g_to;
static verif::FuzzReport g_report("C18");
static long g_execs = 0, g_accepted = 0, g_rejected = 0, g_nontrivial = 0, g_nonfinite = 0, g_roundtrips = 0;

static void dump_stats() {
  std::ostringstream o;
  o << "{\"execs\":" << g_execs << ",\"accepted\":" << g_accepted << ",\"rejected\":" << g_rejected << ",\"nontrivial\":" << g_nontrivial
    << ",\"distinct_nontrivial\":" << g_report.distinct() << ",\"nonfinite_excluded\":" << g_nonfinite << ",\"roundtrips_checked\":" << g_roundtrips
    << ",\"samples\":" << g_report.samples_json() << "}";
  g_report.write_stats(o.str());
}

static int count_tokens(const std::string &s) {
  int n = 0;
  bool in = false;
  for (char c : s) {
    const bool tok = !(c == ' ' || c == '\n' || c == '\t' || c == '\r');
    if (tok && (!in || c == '[' || c == ']' || c == '{' || c == '}' || c == ',' || c == ':')) ++n;
    in = tok && !(c == '[' || c == ']' || c == '{' || c == '}' || c == ',' || c == ':');
  }
  return n;
}

extern "C" int LLVMFuzzerTestOneInput(const uint8_t *data, size_t size) {
  if (!g_chai) {
    g_chai = new chaiscript::ChaiScript_Basic(verif_stdlib(), verif_parser(true));
    g_from = g_chai->eval<std::function<Boxed_Value(const std::string &)>>("from_json");
    g_to = g_chai->eval<std::function<std::string(const Boxed_Value &)>>("to_json");
    std::atexit(dump_stats);
  }
  ++g_execs;
  const std::string text(reinterpret_cast<const char *>(data), size);
  std::string why;
  Boxed_Value w;
  bool accepted = false;
  try {
    w = g_from(text);
    accepted = true;
  } catch (const std::exception &) {
  } catch (...) {
    why = "from_json threw something that is not a std::exception";
  }
  if (accepted) ++g_accepted; else ++g_rejected;
  if (accepted || count_tokens(text) >= 2) { ++g_nontrivial; g_report.note_nontrivial(text); }
  if (why.empty() && accepted) {
    try {
      const std::string j = g_to(w);
      const Boxed_Value w2 = g_from(j);
      bool nonfinite = false;
      const bool eq = verif::json_equiv(w, w2, nonfinite);
      if (nonfinite) ++g_nonfinite;
      else {
        ++g_roundtrips;
        if (!eq) why = "from_json(to_json(from_json(t))) differs from from_json(t); to_json gave: " + j.substr(0, 300);
      }
    } catch (const std::exception &e) {
      bool nonfinite = false;
      verif::json_equiv(w, w, nonfinite);
      if (nonfinite) ++g_nonfinite;
      else why = std::string("accepted text, but to_json/from_json of the result threw: ") + e.what();
    } catch (...) {
      why = "to_json/from_json of an accepted value threw a non-std exception";
    }
  }
  if (!why.empty()) {
    g_report.violation(text, why);
    dump_stats();
    __builtin_trap();
  }
  return 0;
}
