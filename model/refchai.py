"""Reference interpreter of the documented ChaiScript core semantics + pretty-printer, over a JSON-able program AST.

AST (lists):  expressions
  ["i", n] ["b", bool] ["s", str] ["id", name] ["bin", op, a, b] ["un", op, a] ["tern", c, a, b]
  ["call", fname, [args]] ["callv", expr, [args]] ["m", obj, method, [args]] ["idx", e, i] ["vec", [e...]] ["map", [[key, e]...]]
  ["attr", obj, name] ["lam", [params], [captures], block] ["interp", [str|expr ...]] ["new", cls, [args]] ["tostr", e] ["size", e]
statements
  ["var", name, e, kw]  ["ref", name, target, style] ["assign", lhs, op, e] ["expr", e] ["print", e] ["rec", e] ["inc", op, lhs]
  ["if", [[cond, block]...], else|None] ["while", cond, block] ["for", var, init, cond, step_stmt, block] ["rfor", name, e, block]
  ["switch", e, [[value_e, block, has_break]...], default|None] ["break"] ["continue"] ["return", e|None] ["block", block]
  ["global", name, e]
top level
  {"defs": [["def", name, [[pname, ptype|None]...], guard|None, block] | ["class", name, [attrs], [ctor_params], ctor_block, [[mname, [params], block]...]]],
   "main": block, "result": expr}
Values are *boxes* (shared mutable cells with a const flag): the documented copy/alias rules are about handles.
"""

INT_MIN, INT_MAX = -2**31, 2**31 - 1

PREC = {"||": 1, "&&": 2, "|": 3, "^": 4, "&": 5, "==": 6, "!=": 6, "<": 7, "<=": 7, ">": 7, ">=": 7, "<<": 8, ">>": 8, "+": 9, "-": 9, "*": 10, "/": 10, "%": 10}


# ------------------------------------------------------------------ printer
class Printer:
    """Emits ChaiScript text with only the parentheses the model's precedence/associativity table requires."""
    def __init__(self, rnd=None):
        self.rnd = rnd   # optional list of small ints steering layout choices (whitespace, separators, comments)
        self.k = 0

    def choice(self, n):
        if not self.rnd:
            return 0
        v = self.rnd[self.k % len(self.rnd)] % n
        self.k += 1
        return v

    def sp(self):
        return ["", " ", "  ", " /* c */ "][self.choice(4)] if self.rnd else " "

    def e(self, x, ctx=0, right=False):
        k = x[0]
        if k == "i":
            return str(x[1]) if x[1] >= 0 else "(%d)" % x[1]
        if k == "b":
            return "true" if x[1] else "false"
        if k == "s":
            return '"' + x[1].replace("\\", "\\\\").replace('"', '\\"').replace("$", "\\$") + '"'
        if k == "id":
            return x[1]
        if k == "bin":
            p = PREC[x[1]]
            left, right_ = self.e(x[2], p, False), self.e(x[3], p, True)
            sp2 = self.sp()
            if sp2 == "" and right_[:1] in "-+&|<>=!" :
                sp2 = " "        # keep "a - -b" from lexing as "a--b", "a & &b" ...
            s = left + self.sp() + x[1] + sp2 + right_
            # left-associative: parenthesise when the context binds tighter, or equally tight on the right-hand side
            if p < ctx or (p == ctx and right):
                return "(" + s + ")"
            return s
        if k == "un":
            inner = self.e(x[2], 11)
            if inner.startswith(("-", "+", "!")) and x[1] in ("-", "+"):
                inner = "(" + inner + ")"      # "--x" would be the decrement operator
            return x[1] + inner
        if k == "tern":
            s = self.e(x[1], 1) + " ? " + self.e(x[2], 1) + " : " + self.e(x[3], 1)
            return "(" + s + ")"
        if k == "call":
            return x[1] + "(" + ", ".join(self.e(a) for a in x[2]) + ")"
        if k == "callv":
            return self.e(x[1], 12) + "(" + ", ".join(self.e(a) for a in x[2]) + ")"
        if k == "m":
            return self.e(x[1], 12) + "." + x[2] + "(" + ", ".join(self.e(a) for a in x[3]) + ")"
        if k == "idx":
            return self.e(x[1], 12) + "[" + self.e(x[2]) + "]"
        if k == "vec":
            return "[" + ", ".join(self.e(a) for a in x[1]) + "]"
        if k == "map":
            return "[" + ", ".join('"%s": %s' % (kk, self.e(v)) for kk, v in x[1]) + "]" if x[1] else "Map()"
        if k == "attr":
            return self.e(x[1], 12) + "." + x[2]
        if k == "lam":
            cap = "[" + ", ".join(x[2]) + "]" if x[2] else ""
            return "fun" + cap + "(" + ", ".join(x[1]) + ") {\n" + self.block(x[3], 2) + "  }"
        if k == "interp":
            out = '"'
            for part in x[1]:
                if isinstance(part, str):
                    out += part.replace("\\", "\\\\").replace('"', '\\"').replace("$", "\\$")
                else:
                    out += "${" + self.e(part) + "}"
            return out + '"'
        if k == "new":
            return x[1] + "(" + ", ".join(self.e(a) for a in x[2]) + ")"
        if k == "tostr":
            return "to_string(" + self.e(x[1]) + ")"
        if k == "size":
            return "int(" + self.e(x[1], 12) + ".size())"
        raise AssertionError(x)

    def lhs(self, x):
        return self.e(x, 12)

    def block(self, blk, ind):
        return "".join(self.s(st, ind) for st in blk)

    def sep(self):
        return [";\n", "\n", "\n", " ;\n", "\n\n"][self.choice(5)] if self.rnd else "\n"

    def s(self, st, ind):
        p = "  " * ind
        k = st[0]
        if k == "var":
            return p + st[3] + " " + st[1] + " = " + self.e(st[2]) + self.sep()
        if k == "ref":
            return p + ("var &%s = %s" % (st[1], st[2]) if st[3] == 0 else "var %s := %s" % (st[1], st[2])) + self.sep()
        if k == "global":
            return p + "global " + st[1] + " = " + self.e(st[2]) + self.sep()
        if k == "assign":
            return p + self.lhs(st[1]) + " " + st[2] + " " + self.e(st[3]) + self.sep()
        if k == "expr":
            return p + self.e(st[1]) + self.sep()
        if k == "print":
            return p + "print(" + self.e(st[1]) + ")" + self.sep()
        if k == "rec":
            return p + "rec(" + self.e(st[1]) + ")" + self.sep()
        if k == "inc":
            return p + st[1] + self.lhs(st[2]) + self.sep()
        if k == "if":
            out = ""
            for n, (c, b) in enumerate(st[1]):
                out += (p + "if" if n == 0 else " else if") + " (" + self.e(c) + ") {\n" + self.block(b, ind + 1) + p + "}"
            if st[2] is not None:
                out += " else {\n" + self.block(st[2], ind + 1) + p + "}"
            return out + "\n"
        if k == "while":
            return p + "while (" + self.e(st[1]) + ") {\n" + self.block(st[2], ind + 1) + p + "}\n"
        if k == "for":
            step = self.s(st[4], 0).strip().rstrip(";").strip()
            return p + "for (var %s = %s; %s; %s) {\n" % (st[1], self.e(st[2]), self.e(st[3]), step) + self.block(st[5], ind + 1) + p + "}\n"
        if k == "rfor":
            return p + "for (%s : %s) {\n" % (st[1], self.e(st[2])) + self.block(st[3], ind + 1) + p + "}\n"
        if k == "switch":
            out = p + "switch (" + self.e(st[1]) + ") {\n"
            for v, b, brk in st[2]:
                out += p + "  case (" + self.e(v) + ") {\n" + self.block(b, ind + 2) + (p + "    break\n" if brk else "") + p + "  }\n"
            if st[3] is not None:
                out += p + "  default {\n" + self.block(st[3], ind + 2) + p + "  }\n"
            return out + p + "}\n"
        if k == "break":
            return p + "break" + self.sep()
        if k == "continue":
            return p + "continue" + self.sep()
        if k == "return":
            return p + ("return " + self.e(st[1]) if st[1] is not None else "return") + self.sep()
        if k == "block":
            return p + "{\n" + self.block(st[1], ind + 1) + p + "}\n"
        raise AssertionError(st)

    def program(self, prog):
        out = ""
        for d in prog["defs"]:
            if d[0] == "def":
                params = ", ".join((t + " " + n) if t else n for n, t in d[2])
                guard = " : " + self.e(d[3]) if d[3] is not None else ""
                out += "def %s(%s)%s {\n" % (d[1], params, guard) + self.block(d[4], 1) + "}\n"
            else:
                _, name, attrs, cparams, cbody, methods = d
                out += "class %s {\n" % name
                for a in attrs:
                    out += "  var %s\n" % a
                out += "  def %s(%s) {\n" % (name, ", ".join(cparams)) + self.block(cbody, 2) + "  }\n"
                for mname, mparams, mbody in methods:
                    out += "  def %s(%s) {\n" % (mname, ", ".join(mparams)) + self.block(mbody, 2) + "  }\n"
                out += "}\n"
        out += self.block(prog["main"], 0)
        out += self.e(prog["result"]) + "\n"
        return out


# ------------------------------------------------------------------ interpreter
class Discard(Exception):
    """the case leaves the modelled domain (int overflow, ...)"""


class ScriptError(Exception):
    def __init__(self, kind, val=None):
        Exception.__init__(self, kind)
        self.kind = kind      # eval_error | arithmetic_error | std::out_of_range | boxed
        self.val = val


class BreakEx(Exception):
    pass


class ContinueEx(Exception):
    pass


class ReturnEx(Exception):
    def __init__(self, box):
        self.box = box


class Box:
    __slots__ = ("v", "const")

    def __init__(self, v, const=False):
        self.v = v
        self.const = const


class Obj:
    def __init__(self, cls):
        self.cls = cls
        self.attrs = {}


class MPair:
    """element of a Map seen by a ranged-for: const key, the element handle itself as value"""
    def __init__(self, first, second):
        self.first, self.second = first, second


class Fn:
    def __init__(self, params, block, captures=None, name="lambda"):
        self.params, self.block, self.captures, self.name = params, block, captures or {}, name


VOID = ("void",)


def typename(v):
    if isinstance(v, bool):
        return "bool"
    if isinstance(v, int):
        return "int"
    if isinstance(v, str):
        return "string"
    if isinstance(v, list):
        return "Vector"
    if isinstance(v, dict):
        return "Map"
    if isinstance(v, Obj):
        return v.cls
    if isinstance(v, Fn):
        return "Function"
    return "void"


def chk(n):
    if not (INT_MIN <= n <= INT_MAX):
        raise Discard("int overflow")
    return n


def cdiv(a, b):
    q = abs(a) // abs(b)
    return q if (a >= 0) == (b >= 0) else -q


def clone(v):
    """one-level copy performed by `var x = y` / push_back / attribute assignment"""
    if isinstance(v, list):
        return list(v)       # a new vector holding the same element handles
    if isinstance(v, dict):
        return dict(v)
    if isinstance(v, Obj):
        o = Obj(v.cls)
        o.attrs = {k: Box(clone(b.v)) for k, b in v.attrs.items()}
        return o
    return v


def to_string(v):
    if isinstance(v, bool):
        return "true" if v else "false"
    if isinstance(v, int):
        return str(v)
    if isinstance(v, str):
        return v
    if isinstance(v, list):
        return "[" + ", ".join(to_string(b.v) for b in v) + "]"
    if isinstance(v, dict):
        return "[" + ", ".join("<%s, %s>" % (k, to_string(v[k].v)) for k in sorted(v)) + "]"
    raise ScriptError("eval_error")


def render(v):
    def q(s):
        o = '"'
        for c in s.encode("latin-1"):
            if c in (0x22, 0x5c):
                o += "\\" + chr(c)
            elif c < 0x20 or c >= 0x7f:
                o += "\\u%04x" % c
            else:
                o += chr(c)
        return o + '"'
    if v is VOID:
        return "void"
    if isinstance(v, bool):
        return "bool:true" if v else "bool:false"
    if isinstance(v, int):
        return "i32:%d" % v
    if isinstance(v, str):
        return "str:" + q(v)
    if isinstance(v, list):
        return "[" + ", ".join(render(b.v) for b in v) + "]"
    if isinstance(v, dict):
        return "{" + ", ".join("%s: %s" % (q(k), render(v[k].v)) for k in sorted(v)) + "}"
    if isinstance(v, Obj):
        return v.cls + "{" + ", ".join("%s: %s" % (k, render(v.attrs[k].v)) for k in sorted(v.attrs)) + "}"
    if isinstance(v, Fn):
        return "fn"
    return "?"


class Interp:
    def __init__(self, prog, step_limit=20000):
        self.prog = prog
        self.out = []
        self.rec = []
        self.globals = {}
        self.funcs = {}      # name -> list of def nodes in definition order
        self.classes = {}
        self.steps = 0
        self.step_limit = step_limit
        self.kinds = set()   # statement kinds visited (non-triviality)
        self.calls = 0
        self.branches = 0
        for d in prog["defs"]:
            if d[0] == "def":
                self.funcs.setdefault(d[1], []).append(d)
            else:
                self.classes[d[1]] = d

    # ---- scopes: a frame is a list of dicts (innermost last)
    def lookup(self, frame, name):
        for sc in reversed(frame):
            if name in sc:
                return sc[name]
        if name in self.globals:
            return self.globals[name]
        raise ScriptError("eval_error")

    def declare(self, frame, name, box):
        if name in frame[-1]:
            raise ScriptError("eval_error")   # variable redefined in the same scope
        frame[-1][name] = box

    def tick(self):
        self.steps += 1
        if self.steps > self.step_limit:
            raise Discard("step limit")

    # ---- expressions: return a Box (possibly a fresh temporary)
    def ev(self, x, fr):
        self.tick()
        k = x[0]
        if k == "i":
            return Box(x[1], True)
        if k == "b":
            return Box(x[1], True)
        if k == "s":
            return Box(x[1], True)
        if k == "id":
            return self.lookup(fr, x[1])
        if k == "bin":
            op = x[1]
            if op == "&&":
                a = self.truth(self.ev(x[2], fr))
                return Box(a and self.truth(self.ev(x[3], fr)), True)
            if op == "||":
                a = self.truth(self.ev(x[2], fr))
                return Box(a or self.truth(self.ev(x[3], fr)), True)
            abox = self.ev(x[2], fr)
            a = abox.v
            b = self.ev(x[3], fr).v
            if abox.v is not a and abox.v != a:
                # evaluating the right operand changed the variable the left operand names (a call with a side effect): whether the operator sees
                # the old or the new value is an evaluation-order question the documentation (like C++ before C++17) leaves open
                raise Discard("left operand modified by a side effect of the right operand")
            return Box(self.binop(op, a, b), True)
        if k == "un":
            a = self.ev(x[2], fr).v
            if x[1] == "-":
                if isinstance(a, bool) or not isinstance(a, int):
                    raise ScriptError("eval_error")
                return Box(chk(-a), True)
            if x[1] == "!":
                if not isinstance(a, bool):
                    raise ScriptError("eval_error")
                return Box(not a, True)
        if k == "tern":
            self.branches += 1
            return self.ev(x[2], fr) if self.truth(self.ev(x[1], fr)) else self.ev(x[3], fr)
        if k == "call":
            args = [self.ev(a, fr) for a in x[2]]
            return self.call_named(x[1], args, fr)
        if k == "callv":
            f = self.ev(x[1], fr).v
            args = [self.ev(a, fr) for a in x[2]]
            if not isinstance(f, Fn):
                raise ScriptError("eval_error")
            return self.call_fn(f, args)
        if k == "m":
            obj = self.ev(x[1], fr)
            args = [self.ev(a, fr) for a in x[3]]
            return self.method(obj, x[2], args)
        if k == "idx":
            return self.ev_idx(x, fr)
        if k == "vec":
            return Box([Box(clone(self.ev(a, fr).v)) for a in x[1]])
        if k == "map":
            d = {}
            for kk, v in x[1]:
                b = Box(clone(self.ev(v, fr).v))     # every value is evaluated, in order
                if kk not in d:                      # std::map::insert: the first of two equal keys stays
                    d[kk] = b
            return Box(d)
        if k == "attr":
            o = self.ev(x[1], fr).v
            if isinstance(o, MPair):
                if x[2] == "first":
                    return Box(o.first, True)
                if x[2] == "second":
                    return o.second
                raise ScriptError("eval_error")
            if not isinstance(o, Obj) or x[2] not in o.attrs:
                raise ScriptError("eval_error")
            return o.attrs[x[2]]
        if k == "lam":
            caps = {c: self.lookup(fr, c) for c in x[2]}
            return Box(Fn(x[1], x[3], caps))
        if k == "interp":
            out = ""
            for part in x[1]:
                out += part if isinstance(part, str) else to_string(self.ev(part, fr).v)
            return Box(out, True)
        if k == "new":
            return self.construct(x[1], [self.ev(a, fr) for a in x[2]])
        if k == "tostr":
            return Box(to_string(self.ev(x[1], fr).v), True)
        if k == "size":
            c = self.ev(x[1], fr).v
            if not isinstance(c, (list, dict, str)):
                raise ScriptError("eval_error")
            return Box(len(c), True)
        raise AssertionError(x)

    def ev_idx(self, x, fr, create=False):
        c = self.ev(x[1], fr).v
        i = self.ev(x[2], fr).v
        if isinstance(c, list):
            if isinstance(i, bool) or not isinstance(i, int):
                raise ScriptError("eval_error")
            if not (0 <= i < len(c)):
                raise ScriptError("std::out_of_range")
            return c[i]
        if isinstance(c, dict):
            if not isinstance(i, str):
                raise ScriptError("eval_error")
            if i not in c:
                if not create:
                    raise Discard("map default insertion yields an undefined value")
                c[i] = Box(None)          # `m["new"] = v`: operator[] inserts an element without a value, the assignment gives it one
            return c[i]
        raise ScriptError("eval_error")

    def truth(self, box):
        if not isinstance(box.v, bool):
            raise ScriptError("eval_error")
        return box.v

    def binop(self, op, a, b):
        ia = isinstance(a, int) and not isinstance(a, bool)
        ib = isinstance(b, int) and not isinstance(b, bool)
        if ia and ib:
            if op == "+":
                return chk(a + b)
            if op == "-":
                return chk(a - b)
            if op == "*":
                return chk(a * b)
            if op in ("/", "%"):
                if b == 0:
                    raise ScriptError("arithmetic_error")
                if a == INT_MIN and b == -1:
                    raise ScriptError("arithmetic_error")
                q = cdiv(a, b)
                return q if op == "/" else a - q * b
            if op == "<":
                return a < b
            if op == "<=":
                return a <= b
            if op == ">":
                return a > b
            if op == ">=":
                return a >= b
            if op == "==":
                return a == b
            if op == "!=":
                return a != b
            if op == "&":
                return a & b
            if op == "|":
                return a | b
            if op == "^":
                return a ^ b
        if isinstance(a, str) and isinstance(b, str):
            if op == "+":
                return a + b
            if op == "==":
                return a == b
            if op == "!=":
                return a != b
            if op == "<":
                return a < b
            if op == ">":
                return a > b
            if op == "<=":
                return a <= b
            if op == ">=":
                return a >= b
        if isinstance(a, bool) and isinstance(b, bool):
            if op == "==":
                return a == b
            if op == "!=":
                return a != b
        raise ScriptError("eval_error")

    # ---- calls
    def matches(self, d, args):
        params = d[2]
        if len(params) != len(args):
            return False
        for (pn, pt), a in zip(params, args):
            if pt is not None and typename(a.v) != pt:
                return False
        return True

    def order_key(self, d, idx):
        # documented dispatch order: more specific (typed) parameters first; among equals, guarded before unguarded;
        # otherwise definition order
        typed = sum(1 for _, t in d[2] if t is not None)
        return (-typed, 0 if d[3] is not None else 1, idx)

    def call_named(self, name, args, fr):
        # a variable holding a function shadows nothing here: the generator keeps function names and variable names apart
        if name in self.classes:
            return self.construct(name, args)
        if name == "throw" and len(args) == 1:
            raise ScriptError("boxed", render(args[0].v))
        if name not in self.funcs:
            try:
                f = self.lookup(fr, name).v
            except ScriptError:
                raise ScriptError("eval_error")
            if isinstance(f, Fn):
                return self.call_fn(f, args)
            raise ScriptError("eval_error")
        cands = [d for d in self.funcs[name] if len(d[2]) == len(args)]
        cands = [d for _, d in sorted(((self.order_key(d, i), d) for i, d in enumerate(cands)), key=lambda t: t[0])]
        for d in cands:
            if not self.matches(d, args):
                continue
            frame = [dict((pn, a) for (pn, _), a in zip(d[2], args))]
            if d[3] is not None:
                g = self.ev(d[3], frame)
                if not isinstance(g.v, bool):
                    raise ScriptError("eval_error")
                if not g.v:
                    continue
            return self.run_body(d[4], frame)
        raise ScriptError("eval_error")

    def call_fn(self, f, args):
        if len(f.params) != len(args):
            raise ScriptError("eval_error")
        sc = dict(f.captures)
        for p, a in zip(f.params, args):
            sc[p] = a
        return self.run_body(f.block, [sc])

    def run_body(self, block, frame):
        self.calls += 1
        if self.calls > 400:
            raise Discard("call budget")
        try:
            last = self.run_block_inline(block, frame)
        except ReturnEx as r:
            return r.box
        return last

    def construct(self, cls, args):
        if cls not in self.classes:
            raise ScriptError("eval_error")
        _, name, attrs, cparams, cbody, methods = self.classes[cls]
        if len(cparams) != len(args):
            raise ScriptError("eval_error")
        o = Obj(name)
        for a in attrs:
            o.attrs[a] = Box(None)      # declared, undefined until assigned
        this = Box(o)
        sc = {"this": this}
        for p, a in zip(cparams, args):
            sc[p] = a
        self.calls += 1
        try:
            self.run_block_inline(cbody, [sc])
        except ReturnEx:
            pass
        return this

    def method(self, objbox, mname, args):
        o = objbox.v
        if isinstance(o, list):
            if mname == "push_back" and len(args) == 1:
                if objbox.const:
                    raise ScriptError("eval_error")
                o.append(Box(clone(args[0].v)))
                return Box(VOID)
            if mname == "size" and not args:
                raise Discard("size_t arithmetic is outside the model")
            raise ScriptError("eval_error")
        if isinstance(o, dict):
            key = args[0].v if len(args) == 1 else None
            if mname in ("count", "at", "erase") and not isinstance(key, str):
                raise ScriptError("eval_error")
            if mname == "count":
                return Box(1 if key in o else 0, True)      # size_t: only ever printed
            if mname == "at":
                if key not in o:
                    raise ScriptError("std::out_of_range")
                return o[key]
            if mname == "erase":
                if objbox.const:
                    raise ScriptError("eval_error")
                o.pop(key, None)
                return Box(VOID)                             # really a size_t: the generator never lets it be a result
            if mname == "empty" and not args:
                return Box(len(o) == 0, True)
            raise ScriptError("eval_error")
        if isinstance(o, Obj):
            for mn, mparams, mbody in self.classes[o.cls][5]:
                if mn == mname and len(mparams) == len(args):
                    sc = {"this": objbox}
                    for p, a in zip(mparams, args):
                        sc[p] = a
                    return self.run_body(mbody, [sc])
            raise ScriptError("eval_error")
        raise ScriptError("eval_error")

    # ---- statements
    def run_block_inline(self, block, frame):
        """statements of a function body share the frame's base scope"""
        last = Box(VOID)
        for st in block:
            last = self.st(st, frame)
        return last

    def run_block(self, block, frame):
        frame.append({})
        try:
            last = Box(VOID)
            for st in block:
                last = self.st(st, frame)
            return last
        finally:
            frame.pop()

    def assign_to(self, target, op, val):
        """target: Box; performs = or compound assignment in place"""
        if target.const:
            raise ScriptError("eval_error")
        if op == "=":
            if target.v is not None and typename(target.v) != typename(val) :
                raise ScriptError("eval_error")
            target.v = clone(val)
            return target
        cur = target.v
        res = self.binop(op[:-1], cur, val)
        target.v = res
        return target

    def st(self, s, fr):
        self.tick()
        k = s[0]
        self.kinds.add(k)
        if k == "var":
            v = self.ev(s[2], fr).v
            self.declare(fr, s[1], Box(clone(v)))
            return fr[-1][s[1]]
        if k == "ref":
            self.declare(fr, s[1], self.lookup(fr, s[2]))
            return fr[-1][s[1]]
        if k == "global":
            v = self.ev(s[2], fr).v
            if s[1] in self.globals:
                raise Discard("global redefinition")
            self.globals[s[1]] = Box(clone(v))
            return self.globals[s[1]]
        if k == "assign":
            rhs = self.ev(s[3], fr)      # the right-hand side is evaluated first
            lhs = self.ev_idx(s[1], fr, create=(s[2] == "=")) if s[1][0] == "idx" else self.ev(s[1], fr)
            return self.assign_to(lhs, s[2], rhs.v)
        if k == "expr":
            return self.ev(s[1], fr)
        if k == "print":
            self.out.append(to_string(self.ev(s[1], fr).v) + "\n")
            return Box(VOID)
        if k == "rec":
            self.rec.append(render(self.ev(s[1], fr).v))
            return Box(VOID)
        if k == "inc":
            b = self.ev(s[2], fr)
            if b.const or isinstance(b.v, bool) or not isinstance(b.v, int):
                raise ScriptError("eval_error")
            b.v = chk(b.v + (1 if s[1] == "++" else -1))
            return b
        if k == "if":
            for c, blk in s[1]:
                # the condition has a scope of its own (if-init form is not generated)
                if self.truth(self.ev(c, fr)):
                    self.branches += 1
                    return self.run_block(blk, fr)
            if s[2] is not None:
                self.branches += 1
                return self.run_block(s[2], fr)
            return Box(VOID)
        if k == "while":
            while self.truth(self.ev(s[1], fr)):
                self.branches += 1
                try:
                    self.run_block(s[2], fr)
                except BreakEx:
                    break
                except ContinueEx:
                    continue
            return Box(VOID)
        if k == "for":
            fr.append({})
            try:
                self.declare(fr, s[1], Box(clone(self.ev(s[2], fr).v)))
                while self.truth(self.ev(s[3], fr)):
                    self.branches += 1
                    try:
                        self.run_block(s[5], fr)
                    except BreakEx:
                        break
                    except ContinueEx:
                        pass
                    self.st(s[4], fr)
            finally:
                fr.pop()
            return Box(VOID)
        if k == "rfor":
            c = self.ev(s[2], fr).v
            if isinstance(c, dict):
                elems = [Box(MPair(kk, c[kk]), False) for kk in sorted(c)]     # std::map order; the pair's second *is* the element
            elif isinstance(c, list):
                elems = list(c)
            else:
                raise ScriptError("eval_error")
            for elem in elems:
                self.branches += 1
                fr.append({s[1]: elem})       # the loop variable aliases the element
                try:
                    self.run_block(s[3], fr)
                except BreakEx:
                    break
                except ContinueEx:
                    continue
                finally:
                    fr.pop()
            return Box(VOID)
        if k == "switch":
            v = self.ev(s[1], fr).v
            matched = False
            try:
                fr.append({})
                for cv, blk, brk in s[2]:
                    if not matched:
                        c = self.ev(cv, fr).v
                        if typename(c) != typename(v):
                            raise ScriptError("eval_error")
                        matched = (c == v)
                    if matched:
                        self.branches += 1
                        self.run_block(blk, fr)
                        if brk:
                            raise BreakEx()
                if s[3] is not None:
                    self.run_block(s[3], fr)
            except BreakEx:
                pass
            finally:
                fr.pop()
            return Box(VOID)
        if k == "break":
            raise BreakEx()
        if k == "continue":
            raise ContinueEx()
        if k == "return":
            raise ReturnEx(self.ev(s[1], fr) if s[1] is not None else Box(VOID))
        if k == "block":
            return self.run_block(s[1], fr)
        raise AssertionError(s)

    def run(self):
        """-> dict(out, rec, res | exc)"""
        frame = [{}]
        res = {"out": "", "rec": []}
        try:
            for st in self.prog["main"]:
                self.st(st, frame)
            r = self.ev(self.prog["result"], frame)
            res["res"] = render(r.v)
        except ScriptError as e:
            res["exc"] = e.kind
            if e.kind == "boxed":
                res["exc_val"] = e.val
        except (BreakEx, ContinueEx, ReturnEx):
            raise Discard("control flow escaping the top level")
        res["out"] = "".join(self.out)
        res["rec"] = list(self.rec)
        return res
