// C05 (engine R): script arithmetic vs native C++ arithmetic, in process.
//   arith matrix <tier> <seed> <nworkers> <outdir>    exhaustive/sampled boundary matrix + rapidcheck random values
//   arith replay <route> <opindex> <L> <R> <lhex> <rhex>   one case (exit 0 ok, 1 mismatch, killed by signal = trap)
// The oracle is the compiler: ref(l op r) is computed natively through templates, decltype gives the expected type.
#include <chaiscript/chaiscript_basic.hpp>
#include "lib/verif_lib.hpp"

#include <rapidcheck.h>

#include <cinttypes>
#include <cmath>
#include <cstring>
#include <fstream>
#include <map>
#include <random>
#include <set>
#include <sstream>
#include <sys/mman.h>
#include <sys/wait.h>
#include <unistd.h>

using chaiscript::Boxed_Value;

// ---- types ------------------------------------------------------------------------------------------
template<typename T> struct tag { using type = T; };
static const char *TYPE_NAMES[] = {"char", "int8", "uint8", "int16", "uint16", "int", "uint", "long", "ulong", "llong", "ullong", "float", "double", "ldouble"};
constexpr int NTYPES = 14;

template<typename F>
static auto with_type(int idx, F &&f) {
  switch (idx) {
    case 0: return f(tag<char>{});
    case 1: return f(tag<std::int8_t>{});
    case 2: return f(tag<std::uint8_t>{});
    case 3: return f(tag<std::int16_t>{});
    case 4: return f(tag<std::uint16_t>{});
    case 5: return f(tag<int>{});
    case 6: return f(tag<unsigned int>{});
    case 7: return f(tag<long>{});
    case 8: return f(tag<unsigned long>{});
    case 9: return f(tag<long long>{});
    case 10: return f(tag<unsigned long long>{});
    case 11: return f(tag<float>{});
    case 12: return f(tag<double>{});
    default: return f(tag<long double>{});
  }
}

struct Raw {
  unsigned char b[16];
  Raw() { std::memset(b, 0, sizeof b); }
};
template<typename T> static T load(const Raw &r) { T t; std::memcpy(&t, r.b, sizeof(T)); return t; }
template<typename T> static Raw store(T t) { Raw r; std::memcpy(r.b, &t, sizeof(T)); return r; }
static std::string hex(const Raw &r) {
  char buf[40];
  for (int i = 0; i < 16; ++i) std::snprintf(buf + 2 * i, 3, "%02x", r.b[i]);
  return buf;
}
static Raw unhex(const std::string &s) {
  Raw r;
  for (int i = 0; i < 16 && 2 * i + 1 < static_cast<int>(s.size()); ++i) r.b[i] = static_cast<unsigned char>(std::stoul(s.substr(2 * i, 2), nullptr, 16));
  return r;
}

template<typename T>
static std::string show(T v) {
  char buf[64];
  if constexpr (std::is_floating_point_v<T>) std::snprintf(buf, sizeof buf, "%.21Lg", static_cast<long double>(v));
  else if constexpr (std::is_signed_v<T>) std::snprintf(buf, sizeof buf, "%lld", static_cast<long long>(v));
  else std::snprintf(buf, sizeof buf, "%llu", static_cast<unsigned long long>(v));
  return buf;
}

template<typename T>
static std::vector<T> boundary_values() {
  std::set<long double> seen;
  std::vector<T> out;
  auto add = [&](T v) {
    for (const T &o : out) { if (std::memcmp(&o, &v, sizeof(T)) == 0) return; }
    out.push_back(v);
  };
  using L = std::numeric_limits<T>;
  if constexpr (std::is_floating_point_v<T>) {
    for (T v : {T(0), T(-0.0), T(1), T(-1), T(2), T(0.5), T(-0.5), T(3), T(-7), T(1e9), L::max(), L::lowest(), L::min(), L::denorm_min(), -L::denorm_min(), L::infinity(), -L::infinity(), L::quiet_NaN(),
                T(2147483648.0), T(-2147483649.0), T(127), T(255.5)}) add(v);
  } else {
    add(T(0)); add(T(1)); add(T(2)); add(L::max()); add(L::min()); add(T(L::max() - 1)); add(T(L::min() + 1));
    if constexpr (std::is_signed_v<T>) { add(T(-1)); add(T(-2)); }
    for (unsigned k = 1; k < sizeof(T) * 8; ++k) {
      const unsigned long long p = 1ULL << k;
      if (k == 3 || k == 7 || k == 8 || k == 15 || k == 16 || k == 31 || k == 32 || k == 62 || k == 63) {
        add(static_cast<T>(p));
        add(static_cast<T>(p - 1));
      }
    }
    add(T(3)); add(T(7)); add(T(31)); add(T(33)); add(T(64));
  }
  return out;
}

// ---- operators ------------------------------------------------------------------------------------
enum Op { ADD, SUB, MUL, DIV, MOD, AND, OR, XOR, SHL, SHR, EQ, NE, LT, LE, GT, GE,          // binary 0..15
          ASSIGN, AADD, ASUB, AMUL, ADIV, AMOD, AAND, AOR, AXOR, ASHL, ASHR,                  // compound 16..26
          NEG, POS, NOT, INC, DEC, NOPS };                                                   // unary 27..31
static const char *OP_TEXT[] = {"+", "-", "*", "/", "%", "&", "|", "^", "<<", ">>", "==", "!=", "<", "<=", ">", ">=",
                                "=", "+=", "-=", "*=", "/=", "%=", "&=", "|=", "^=", "<<=", ">>=", "-", "+", "~", "++", "--"};
static bool is_binary(int op) { return op <= GE; }
static bool is_compound(int op) { return op >= ASSIGN && op <= ASHR; }
static bool is_unary(int op) { return op >= NEG; }

enum Verdict { EXCLUDED, INVALID, VALUE, TRAP };
struct Expect {
  Verdict v = INVALID;
  // expected result class
  size_t size = 0;
  bool is_signed = false, is_float = false, is_bool = false;
  Raw value;       // result value in the expected type
  Raw lhs_after;   // compound / ++ --: the left operand afterwards
  std::string text;
};

template<typename C> static bool add_ovf(C a, C b) { C r; return __builtin_add_overflow(a, b, &r); }
template<typename C> static bool sub_ovf(C a, C b) { C r; return __builtin_sub_overflow(a, b, &r); }
template<typename C> static bool mul_ovf(C a, C b) { C r; return __builtin_mul_overflow(a, b, &r); }

template<typename To, typename From>
static bool conv_defined(From f) {  // is static_cast<To>(f) defined?
  if constexpr (std::is_floating_point_v<From> && std::is_integral_v<To>) {
    if (!(f == f)) return false;
    const long double t = std::trunc(static_cast<long double>(f));
    return t >= static_cast<long double>(std::numeric_limits<To>::min()) && t <= static_cast<long double>(std::numeric_limits<To>::max());
  } else {
    (void)f;
    return true;
  }
}

template<typename T>
static void set_result(Expect &e, T v) {
  e.v = VALUE;
  e.size = sizeof(T);
  e.is_bool = std::is_same_v<T, bool>;
  e.is_float = std::is_floating_point_v<T>;
  e.is_signed = std::is_signed_v<T>;
  e.value = store<T>(v);
  e.text = show(v);
}

// binary value operators on the promoted common type
template<typename L, typename R>
static Expect expect_binary(int op, L l, R r) {
  Expect e;
  constexpr bool anyf = std::is_floating_point_v<L> || std::is_floating_point_v<R>;
  using C = decltype(L() + R());
  const C cl = static_cast<C>(l), cr = static_cast<C>(r);
  switch (op) {
    case ADD: if constexpr (std::is_integral_v<C> && std::is_signed_v<C>) { if (add_ovf(cl, cr)) { e.v = EXCLUDED; return e; } } set_result(e, l + r); return e;
    case SUB: if constexpr (std::is_integral_v<C> && std::is_signed_v<C>) { if (sub_ovf(cl, cr)) { e.v = EXCLUDED; return e; } } set_result(e, l - r); return e;
    case MUL: if constexpr (std::is_integral_v<C> && std::is_signed_v<C>) { if (mul_ovf(cl, cr)) { e.v = EXCLUDED; return e; } } set_result(e, l * r); return e;
    case DIV:
      if constexpr (!anyf) {
        if (cr == 0) { e.v = TRAP; return e; }
        if constexpr (std::is_signed_v<C>) { if (cl == std::numeric_limits<C>::min() && cr == C(-1)) { e.v = TRAP; return e; } }
      }
      set_result(e, l / r);
      return e;
    case EQ: set_result(e, l == r); return e;
    case NE: set_result(e, l != r); return e;
    case LT: set_result(e, l < r); return e;
    case LE: set_result(e, l <= r); return e;
    case GT: set_result(e, l > r); return e;
    case GE: set_result(e, l >= r); return e;
    default: break;
  }
  if constexpr (!anyf) {
    switch (op) {
      case MOD:
        if (cr == 0) { e.v = TRAP; return e; }
        if constexpr (std::is_signed_v<C>) { if (cl == std::numeric_limits<C>::min() && cr == C(-1)) { e.v = TRAP; return e; } }
        set_result(e, l % r);
        return e;
      case AND: set_result(e, l & r); return e;
      case OR: set_result(e, l | r); return e;
      case XOR: set_result(e, l ^ r); return e;
      case SHL:
      case SHR: {
        using PL = decltype(+L());
        const PL pl = l;
        if constexpr (std::is_signed_v<R>) { if (r < 0) { e.v = EXCLUDED; return e; } }
        if (static_cast<unsigned long long>(r) >= sizeof(PL) * 8) { e.v = EXCLUDED; return e; }
        if (op == SHL) {
          if constexpr (std::is_signed_v<PL>) {
            if (pl < 0) { e.v = EXCLUDED; return e; }
            // result must be representable (C++17: otherwise undefined)
            if (r > 0 && (static_cast<unsigned long long>(pl) >> (sizeof(PL) * 8 - 1 - static_cast<unsigned>(r))) != 0) { e.v = EXCLUDED; return e; }
          }
          set_result(e, l << r);
        } else {
          set_result(e, l >> r);
        }
        return e;
      }
      default: break;
    }
  }
  e.v = INVALID;
  return e;
}

static int binary_of_compound(int op) {
  switch (op) {
    case AADD: return ADD; case ASUB: return SUB; case AMUL: return MUL; case ADIV: return DIV; case AMOD: return MOD;
    case AAND: return AND; case AOR: return OR; case AXOR: return XOR; case ASHL: return SHL; case ASHR: return SHR;
    default: return -1;
  }
}

template<typename L, typename R>
static Expect expect_compound(int op, L l, R r) {
  Expect e;
  if (op == ASSIGN) {
    if (!conv_defined<L>(r)) { e.v = EXCLUDED; return e; }
    const L after = static_cast<L>(r);
    set_result(e, after);
    e.lhs_after = store<L>(after);
    return e;
  }
  const Expect b = expect_binary<L, R>(binary_of_compound(op), l, r);
  if (b.v != VALUE) return b;
  // l op= r  ==  l = static_cast<L>(l op r)
  using C = decltype(L() + R());
  bool ok = true;
  L after{};
  if (op == ASHL || op == ASHR) {
    using PL = decltype(+L());
    const PL v = load<PL>(b.value);
    ok = conv_defined<L>(v);
    if (ok) after = static_cast<L>(v);
  } else {
    const C v = load<C>(b.value);
    ok = conv_defined<L>(v);
    if (ok) after = static_cast<L>(v);
  }
  if (!ok) { e.v = EXCLUDED; return e; }
  set_result(e, after);
  e.lhs_after = store<L>(after);
  return e;
}

template<typename L>
static Expect expect_unary(int op, L l) {
  Expect e;
  using PL = decltype(+L());
  switch (op) {
    case NEG:
      if constexpr (std::is_integral_v<PL> && std::is_signed_v<PL>) { if (static_cast<PL>(l) == std::numeric_limits<PL>::min()) { e.v = EXCLUDED; return e; } }
      set_result(e, -l);
      return e;
    case POS: set_result(e, +l); return e;
    case NOT:
      if constexpr (std::is_integral_v<L>) { set_result(e, ~l); return e; }
      e.v = INVALID;
      return e;
    case INC:
    case DEC: {
      if constexpr (std::is_integral_v<L> && std::is_signed_v<L> && sizeof(L) >= sizeof(int)) {
        if ((op == INC && l == std::numeric_limits<L>::max()) || (op == DEC && l == std::numeric_limits<L>::min())) { e.v = EXCLUDED; return e; }
      }
      L after = l;
      if (op == INC) ++after; else --after;
      set_result(e, after);
      e.lhs_after = store<L>(after);
      return e;
    }
    default: break;
  }
  e.v = INVALID;
  return e;
}

// ---- the engine under test ------------------------------------------------------------------------
struct Storage {
  char c; std::int8_t i8; std::uint8_t u8; std::int16_t i16; std::uint16_t u16; int i; unsigned u; long l; unsigned long ul; long long ll; unsigned long long ull;
  float f; double d; long double ld;
};
template<typename T> static T &field(Storage &s) {
  if constexpr (std::is_same_v<T, char>) return s.c;
  else if constexpr (std::is_same_v<T, std::int8_t>) return s.i8;
  else if constexpr (std::is_same_v<T, std::uint8_t>) return s.u8;
  else if constexpr (std::is_same_v<T, std::int16_t>) return s.i16;
  else if constexpr (std::is_same_v<T, std::uint16_t>) return s.u16;
  else if constexpr (std::is_same_v<T, int>) return s.i;
  else if constexpr (std::is_same_v<T, unsigned>) return s.u;
  else if constexpr (std::is_same_v<T, long>) return s.l;
  else if constexpr (std::is_same_v<T, unsigned long>) return s.ul;
  else if constexpr (std::is_same_v<T, long long>) return s.ll;
  else if constexpr (std::is_same_v<T, unsigned long long>) return s.ull;
  else if constexpr (std::is_same_v<T, float>) return s.f;
  else if constexpr (std::is_same_v<T, double>) return s.d;
  else return s.ld;
}

struct Engine {
  chaiscript::ChaiScript_Basic chai;
  Storage A{}, B{};
  std::map<std::string, chaiscript::AST_NodePtr> ast_cache;
  std::map<std::string, int> literal_ok;  // literal text -> 1 expressible / 0 not
  Engine() : chai(verif_stdlib(), verif_parser(true)) {
    for (int t = 0; t < NTYPES; ++t) {
      with_type(t, [&](auto tg) {
        using T = typename decltype(tg)::type;
        chai.add(chaiscript::var(std::ref(field<T>(A))), std::string("a_") + TYPE_NAMES[t]);
        chai.add(chaiscript::var(std::ref(field<T>(B))), std::string("b_") + TYPE_NAMES[t]);
        return 0;
      });
    }
  }
};
static Engine *g_eng = nullptr;

// classification of the result's type
struct Got {
  bool threw = false;
  std::string exc;       // arithmetic_error | eval_error | other:<type>
  size_t size = 0;
  bool is_signed = false, is_float = false, is_bool = false, known = false;
  Raw value;
  const void *ptr = nullptr;
  std::string text;
};

template<typename T>
static bool try_type(const Boxed_Value &bv, Got &g) {
  if (!bv.get_type_info().bare_equal_type_info(typeid(T))) return false;
  g.known = true;
  g.size = sizeof(T);
  g.is_bool = std::is_same_v<T, bool>;
  g.is_float = std::is_floating_point_v<T>;
  g.is_signed = std::is_signed_v<T>;
  const T v = chaiscript::boxed_cast<T>(bv);
  g.value = store<T>(v);
  g.text = show(v);
  g.ptr = bv.get_const_ptr();
  return true;
}

static Got run_script(const std::string &text, bool cache_ast) {
  Got g;
  try {
    Boxed_Value bv;
    if (cache_ast) {
      auto it = g_eng->ast_cache.find(text);
      if (it == g_eng->ast_cache.end()) it = g_eng->ast_cache.emplace(text, g_eng->chai.parse(text)).first;
      bv = g_eng->chai.eval(*it->second);
    } else {
      bv = g_eng->chai.eval(text);
    }
    (void)(try_type<bool>(bv, g) || try_type<char>(bv, g) || try_type<signed char>(bv, g) || try_type<unsigned char>(bv, g) || try_type<short>(bv, g)
           || try_type<unsigned short>(bv, g) || try_type<int>(bv, g) || try_type<unsigned int>(bv, g) || try_type<long>(bv, g) || try_type<unsigned long>(bv, g)
           || try_type<long long>(bv, g) || try_type<unsigned long long>(bv, g) || try_type<float>(bv, g) || try_type<double>(bv, g) || try_type<long double>(bv, g));
    if (!g.known) g.text = std::string("non-arithmetic result ") + bv.get_type_info().bare_name();
  } catch (const chaiscript::exception::arithmetic_error &) {
    g.threw = true; g.exc = "arithmetic_error";
  } catch (const chaiscript::exception::eval_error &e) {
    g.threw = true; g.exc = "eval_error"; g.text = e.reason;
  } catch (const std::exception &e) {
    g.threw = true; g.exc = std::string("other:") + typeid(e).name();
  } catch (const Boxed_Value &bv) {
    // eval(const AST_Node &) re-throws an eval_error boxed (that is its documented contract for script-level eval of a tree)
    g.threw = true;
    g.exc = bv.get_type_info().bare_equal_type_info(typeid(chaiscript::exception::eval_error)) ? "eval_error" : std::string("other:boxed ") + bv.get_type_info().bare_name();
  } catch (...) {
    g.threw = true; g.exc = "other:non-std";
  }
  return g;
}

// literal spelling of a value, "" when the type has no literal form
template<typename T>
static std::string literal(T v) {
  char buf[96];
  if constexpr (std::is_same_v<T, char>) {
    std::snprintf(buf, sizeof buf, "'\\x%02x'", static_cast<unsigned>(static_cast<unsigned char>(v)));
    return buf;
  } else if constexpr (std::is_floating_point_v<T>) {
    const char *sfx = std::is_same_v<T, float> ? "f" : std::is_same_v<T, long double> ? "l" : "";
    if (v != v) return std::is_same_v<T, double> ? "NaN" : "";
    if (std::isinf(v)) return std::is_same_v<T, double> ? (v > 0 ? "Infinity" : "(-Infinity)") : "";
    if constexpr (std::is_same_v<T, long double>) std::snprintf(buf, sizeof buf, "%.21Le%s", std::fabs(v), sfx);
    else std::snprintf(buf, sizeof buf, std::is_same_v<T, float> ? "%.9e%s" : "%.17e%s", static_cast<double>(std::fabs(v)), sfx);
    return std::signbit(v) ? std::string("(-") + buf + ")" : std::string(buf);
  } else if constexpr (sizeof(T) < sizeof(int)) {
    return "";
  } else {
    const char *sfx = std::is_same_v<T, int> ? "" : std::is_same_v<T, unsigned> ? "u" : std::is_same_v<T, long> ? "l" : std::is_same_v<T, unsigned long> ? "ul"
        : std::is_same_v<T, long long> ? "ll" : "ull";
    if constexpr (std::is_signed_v<T>) {
      if (v == std::numeric_limits<T>::min()) {
        std::snprintf(buf, sizeof buf, "(-%lld%s-1%s)", static_cast<long long>(std::numeric_limits<T>::max()), sfx, sfx);
        return buf;
      }
      if (v < 0) { std::snprintf(buf, sizeof buf, "(-%lld%s)", -static_cast<long long>(v), sfx); return buf; }
      std::snprintf(buf, sizeof buf, "%lld%s", static_cast<long long>(v), sfx);
      return buf;
    } else {
      std::snprintf(buf, sizeof buf, "%llu%s", static_cast<unsigned long long>(v), sfx);
      return buf;
    }
  }
}

template<typename T> static bool same_value(const Raw &a, const Raw &b);
// a literal is usable on routes 2/3 only if evaluating it alone yields exactly (type class, value) -- literal parsing itself is C16's business
template<typename T>
static bool literal_expressible(const std::string &lit, T v) {
  if (lit.empty()) return false;
  auto it = g_eng->literal_ok.find(lit);
  if (it != g_eng->literal_ok.end()) return it->second == 1;
  const Got g = run_script(lit, false);
  const Raw want = store<T>(v);
  const bool ok = !g.threw && g.known && g.size == sizeof(T) && g.is_float == std::is_floating_point_v<T> && g.is_signed == std::is_signed_v<T>
      && same_value<T>(g.value, want);
  g_eng->literal_ok[lit] = ok ? 1 : 0;
  return ok;
}

struct Counters {
  long cases = 0, checked = 0, excluded = 0, invalid = 0, traps = 0, nontrivial = 0, unexpressible = 0, same_object = 0;
  long by_route[5] = {0, 0, 0, 0, 0};
  std::map<std::string, long> cells;  // op|L|R -> checked
  std::vector<std::string> samples;
};
static Counters g_cnt;
static char *g_current = nullptr;  // shared memory: description of the case being executed

template<typename T> static bool same_value(const Raw &a, const Raw &b) {
  if constexpr (std::is_floating_point_v<T>) {
    const T x = load<T>(a), y = load<T>(b);  // long double carries padding bytes: compare values, not storage
    if (x != x && y != y) return true;
    return x == y && std::signbit(x) == std::signbit(y);
  } else {
    return std::memcmp(a.b, b.b, sizeof(T)) == 0;
  }
}
static bool same_value_sized(const Expect &e, const Got &g) {
  if (e.is_float) {
    if (e.size == sizeof(float)) return same_value<float>(e.value, g.value);
    if (e.size == sizeof(double)) return same_value<double>(e.value, g.value);
    return same_value<long double>(e.value, g.value);
  }
  return std::memcmp(e.value.b, g.value.b, e.size) == 0;
}

// returns "" when the case passes (or is excluded), else a description of the disagreement
template<typename L, typename R>
static std::string run_case(int route, int op, L l, R r, int li, int ri) {
  ++g_cnt.cases;
  Expect e = is_binary(op) ? expect_binary<L, R>(op, l, r) : is_compound(op) ? expect_compound<L, R>(op, l, r) : expect_unary<L>(op, l);
  if (e.v == INVALID) { ++g_cnt.invalid; return ""; }
  if (e.v == EXCLUDED) { ++g_cnt.excluded; return ""; }
  const std::string an = std::string("a_") + TYPE_NAMES[li], bn = std::string("b_") + TYPE_NAMES[ri];
  std::string text;
  const bool unary = is_unary(op);
  const bool mutating = is_compound(op) || op == INC || op == DEC;
  std::string llit, rlit;
  if (route == 2 || (route == 3 && unary)) {
    if (mutating) { ++g_cnt.invalid; return ""; }  // a literal cannot be assigned to
    llit = literal<L>(l);
    if (!literal_expressible<L>(llit, l)) { ++g_cnt.unexpressible; return ""; }
  }
  if ((route == 2 || route == 3) && !unary) {
    rlit = literal<R>(r);
    if (!literal_expressible<R>(rlit, r)) { ++g_cnt.unexpressible; return ""; }
  }
  if (route == 3 && unary) { ++g_cnt.invalid; return ""; }
  switch (route) {
    case 1: text = unary ? std::string(OP_TEXT[op]) + an : an + " " + OP_TEXT[op] + " " + bn; break;
    case 2: text = unary ? std::string(OP_TEXT[op]) + llit : llit + " " + OP_TEXT[op] + " " + rlit; break;
    case 3: text = an + " " + OP_TEXT[op] + " " + rlit; break;
    default: text = unary ? std::string("`") + OP_TEXT[op] + "`(" + an + ")" : std::string("`") + OP_TEXT[op] + "`(" + an + ", " + bn + ")"; break;
  }
  field<L>(g_eng->A) = l;
  field<R>(g_eng->B) = r;
  if (g_current) std::snprintf(g_current, 480, "%d %d %s %s %s %s :: %s  [l=%s r=%s]", route, op, TYPE_NAMES[li], TYPE_NAMES[ri],
                               hex(store<L>(l)).c_str(), hex(store<R>(r)).c_str(), text.c_str(), show(l).c_str(), show(r).c_str());
  const Got g = run_script(text, route == 1 || route == 4);
  ++g_cnt.checked;
  ++g_cnt.by_route[route];
  ++g_cnt.cells[std::string(OP_TEXT[op]) + "|" + TYPE_NAMES[li] + "|" + TYPE_NAMES[ri]];
  ++g_cnt.nontrivial;  // not excluded; operands are boundary values by construction (matrix) or random (rapidcheck part)
  if (g_cnt.samples.size() < 6 && (g_cnt.checked % 9973) == 1) g_cnt.samples.push_back(std::string(g_current ? g_current : text.c_str()));
  // verdict on one evaluation of the expression (shared by the primary text and the same-object variant below)
  auto judge = [&](const Got &g) -> std::string {
    std::ostringstream why;
    if (e.v == TRAP) {
      const bool ok = g.threw && (g.exc == "arithmetic_error" || (is_compound(op) && g.exc == "eval_error"));
      if (!ok) {
        why << "trapping operation must raise arithmetic_error" << (is_compound(op) ? " (or eval_error)" : "") << " but "
            << (g.threw ? "raised " + g.exc + " " + g.text : "returned " + g.text);
        return why.str();
      }
      return "";
    }
    if (g.threw) {
      why << "raised " << g.exc << " " << g.text << ", C++ yields " << e.text;
      return why.str();
    }
    if (!g.known) { return "result is not arithmetic: " + g.text; }
    if (g.is_bool != e.is_bool || g.is_float != e.is_float || g.size != e.size || (!e.is_bool && g.is_signed != e.is_signed)) {
      why << "result type (size " << g.size << (g.is_float ? " float" : g.is_bool ? " bool" : g.is_signed ? " signed" : " unsigned") << ") differs from C++ (size " << e.size
          << (e.is_float ? " float" : e.is_bool ? " bool" : e.is_signed ? " signed" : " unsigned") << "); value " << g.text << " vs " << e.text;
      return why.str();
    }
    if (!same_value_sized(e, g)) {
      why << "value " << g.text << " differs from C++ " << e.text;
      return why.str();
    }
    return "";
  };
  std::ostringstream why;
  {
    const std::string verdict = judge(g);
    if (!verdict.empty()) return verdict;
  }
  if (e.v == TRAP) {
    ++g_cnt.traps;
    if (mutating && !same_value<L>(store<L>(field<L>(g_eng->A)), store<L>(l))) return "left operand modified although the operation raised";
    return "";
  }
  // the same *object* on both sides (x == x, x - x, x / x ...): C++ does not care, neither may the script (NaN == NaN is false even for one NaN)
  if constexpr (std::is_same<L, R>::value) {
    if (!unary && !mutating && (route == 1 || route == 4) && std::memcmp(store<L>(l).b, store<R>(r).b, sizeof(L)) == 0) {
      const std::string t2 = route == 1 ? an + " " + OP_TEXT[op] + " " + an : std::string("`") + OP_TEXT[op] + "`(" + an + ", " + an + ")";
      if (g_current) std::snprintf(g_current, 480, "%d %d %s %s %s %s :: %s  [same object; l=r=%s]", route, op, TYPE_NAMES[li], TYPE_NAMES[ri],
                                   hex(store<L>(l)).c_str(), hex(store<R>(r)).c_str(), t2.c_str(), show(l).c_str());
      const Got g2 = run_script(t2, true);
      ++g_cnt.same_object;
      const std::string verdict = judge(g2);
      if (!verdict.empty()) return "with the same object on both sides (" + t2 + "): " + verdict;
    }
  }
  if (mutating) {
    if (!same_value<L>(store<L>(field<L>(g_eng->A)), e.lhs_after)) {
      why << "left operand holds " << show(field<L>(g_eng->A)) << " afterwards, C++ leaves " << show(load<L>(e.lhs_after));
      return why.str();
    }
    if (g.ptr != static_cast<const void *>(&field<L>(g_eng->A))) return "compound assignment result does not alias the left operand";
  }
  return "";
}

static std::string run_case_dyn(int route, int op, int li, int ri, const Raw &lr, const Raw &rr) {
  return with_type(li, [&](auto lt) {
    using L = typename decltype(lt)::type;
    return with_type(ri, [&](auto rt) {
      using R = typename decltype(rt)::type;
      return run_case<L, R>(route, op, load<L>(lr), load<R>(rr), li, ri);
    });
  });
}

static std::vector<std::vector<Raw>> g_values;  // per type
static void init_values() {
  g_values.resize(NTYPES);
  for (int t = 0; t < NTYPES; ++t) {
    with_type(t, [&](auto tg) {
      using T = typename decltype(tg)::type;
      for (T v : boundary_values<T>()) g_values[t].push_back(store<T>(v));
      return 0;
    });
  }
}

static void report(std::ofstream &out, const std::string &why) {
  out << "FAIL " << (g_current ? g_current : "?") << " :: " << why << "\n";
  out.flush();
}

static int worker(int idx, int nworkers, bool thorough, unsigned seed, const std::string &outdir) {
  g_eng = new Engine();
  init_values();
  std::ofstream out(outdir + "/worker" + std::to_string(idx) + ".txt");
  std::mt19937 sampler(seed * 7919u + 13u);  // deterministic sampling of the matrix in the quick tier (same stream in every worker)
  long cell = 0, fails = 0;
  for (int op = 0; op < NOPS; ++op) {
    for (int li = 0; li < NTYPES; ++li) {
      for (int ri = 0; ri < (is_unary(op) ? 1 : NTYPES); ++ri) {
        const bool mine = (cell++ % nworkers) == idx;
        for (const Raw &lr : g_values[li]) {
          for (const Raw &rr : (is_unary(op) ? std::vector<Raw>{Raw()} : g_values[ri])) {
            const unsigned pick = sampler();
            if (!mine) continue;
            for (int route = 1; route <= 4; ++route) {
              // the matrix is exhaustive on the runtime-node and function routes in both tiers; the two text routes (a fresh parse per
              // case) take every case in the thorough tier and a seeded 1/3 sample in the quick tier
              bool take = true;
              if (!thorough && (route == 2 || route == 3)) take = (pick % 3) == 0;
              if (!take) continue;
              const std::string why = run_case_dyn(route, op, li, ri, lr, rr);
              if (!why.empty() && fails < 200) { report(out, why); ++fails; }
            }
          }
        }
      }
    }
  }
  // random values through rapidcheck (seed via RC_PARAMS)
  long rc_cases = 0;
  std::string rc_fail;
  const bool ok = rc::check("script arithmetic equals native arithmetic on random operands", [&]() {
    const int route = *rc::gen::inRange(1, 5);
    const int op = *rc::gen::inRange(0, static_cast<int>(NOPS));
    const int li = *rc::gen::inRange(0, NTYPES);
    const int ri = *rc::gen::inRange(0, NTYPES);
    Raw lr, rr;
    const auto lv = *rc::gen::resize(64, rc::gen::arbitrary<std::uint64_t>());
    const auto rv = *rc::gen::resize(64, rc::gen::arbitrary<std::uint64_t>());
    const int lshape = *rc::gen::inRange(0, 4), rshape = *rc::gen::inRange(0, 4);
    auto fill = [](int t, std::uint64_t bits, int shape) {
      return with_type(t, [&](auto tg) {
        using T = typename decltype(tg)::type;
        if constexpr (std::is_floating_point_v<T>) {
          const double m = static_cast<double>(static_cast<std::int64_t>(bits)) / (shape == 0 ? 1.0 : shape == 1 ? 4294967296.0 : shape == 2 ? 1e15 : 3.0);
          return store<T>(static_cast<T>(m));
        } else {
          const std::uint64_t b = shape == 0 ? bits : shape == 1 ? (bits & 0xff) : shape == 2 ? (bits & 0x3f) : (bits >> 33);
          return store<T>(static_cast<T>(b));
        }
      });
    };
    lr = fill(li, lv, lshape);
    rr = fill(ri, rv, rshape);
    ++rc_cases;
    const std::string why = run_case_dyn(route, op, li, ri, lr, rr);
    if (!why.empty()) rc_fail = std::string(g_current) + " :: " + why;
    RC_ASSERT(why.empty());
  });
  if (!ok && !rc_fail.empty()) { out << "FAIL " << rc_fail << "\n"; }
  out << "STATS cases=" << g_cnt.cases << " checked=" << g_cnt.checked << " excluded=" << g_cnt.excluded << " invalid=" << g_cnt.invalid << " traps=" << g_cnt.traps
      << " unexpressible=" << g_cnt.unexpressible << " r1=" << g_cnt.by_route[1] << " r2=" << g_cnt.by_route[2] << " r3=" << g_cnt.by_route[3] << " r4=" << g_cnt.by_route[4]
      << " same_object=" << g_cnt.same_object << " cells=" << g_cnt.cells.size() << " rc_cases=" << rc_cases << "\n";
  for (const auto &s : g_cnt.samples) out << "SAMPLE " << s << "\n";
  out << "DONE\n";
  out.close();
  return 0;
}

int main(int argc, char **argv) {
  if (argc >= 8 && std::string(argv[1]) == "replay") {
    g_eng = new Engine();
    static char cur[512];
    g_current = cur;
    int op = std::atoi(argv[3]), li = -1, ri = -1;
    for (int i = 0; i < NTYPES; ++i) { if (std::string(TYPE_NAMES[i]) == argv[4]) li = i; if (std::string(TYPE_NAMES[i]) == argv[5]) ri = i; }
    if (op >= NOPS) op = -1;
    if (op < 0 || li < 0 || ri < 0) { std::fprintf(stderr, "bad replay arguments\n"); return 2; }
    const std::string why = run_case_dyn(std::atoi(argv[2]), op, li, ri, unhex(argv[6]), unhex(argv[7]));
    if (!why.empty()) { std::printf("FAIL %s :: %s\n", cur, why.c_str()); return 1; }
    std::printf("ok %s\n", cur);
    return 0;
  }
  if (argc >= 6 && std::string(argv[1]) == "matrix") {
    const bool thorough = std::string(argv[2]) == "thorough";
    const unsigned seed = static_cast<unsigned>(std::strtoul(argv[3], nullptr, 10));
    const int nworkers = std::atoi(argv[4]);
    const std::string outdir = argv[5];
    char *shared = static_cast<char *>(mmap(nullptr, 512 * static_cast<size_t>(nworkers), PROT_READ | PROT_WRITE, MAP_SHARED | MAP_ANONYMOUS, -1, 0));
    std::vector<pid_t> pids;
    for (int w = 0; w < nworkers; ++w) {
      const pid_t p = fork();
      if (p == 0) {
        g_current = shared + 512 * w;
        _exit(worker(w, nworkers, thorough, seed, outdir));
      }
      pids.push_back(p);
    }
    int rc = 0;
    for (int w = 0; w < nworkers; ++w) {
      int st = 0;
      waitpid(pids[static_cast<size_t>(w)], &st, 0);
      if (WIFSIGNALED(st) || (WIFEXITED(st) && WEXITSTATUS(st) != 0)) {
        // the worker died inside a case: the process was killed instead of an exception being raised
        std::printf("DIED worker=%d %s=%d %s\n", w, WIFSIGNALED(st) ? "signal" : "exit", WIFSIGNALED(st) ? WTERMSIG(st) : WEXITSTATUS(st), shared + 512 * w);
        rc = 1;
      }
    }
    return rc;
  }
  std::fprintf(stderr, "usage: arith matrix <quick|thorough> <seed> <nworkers> <outdir> | arith replay <route> <opindex> <L> <R> <lhex> <rhex>\n");
  return 2;
}
