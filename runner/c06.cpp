// C06 support: a catalogue of C++ callables that log every entry (overload id, and per parameter: value and address),
// script-visible argument values of every kind with known addresses, and the C++-receives direction (boxed_cast<T>).
#include "runner/core.hpp"
namespace vr {
namespace {
struct Base { int x = 11; virtual ~Base() = default; virtual int who() const { return 1; } int m_val(int a) { return a + x; } };
struct Derived : Base { int y = 22; int who() const override { return 2; } };
struct Sibling : Base { int who() const override { return 3; } };
struct SBase { int s = 33; };
struct SDerived : SBase { int t = 44; };
struct Other { int o = 55; };

struct Entry { std::string id; std::vector<std::string> vals; std::vector<long> addrs; };
struct World {
  std::vector<Entry> log;
  int i_obj = 7;             // shared by ref / cref / ptr / cptr
  std::string s_obj = "sobj";
  Base base; Derived derived; Sibling sibling; Other other; SBase sbase; SDerived sderived;
  std::shared_ptr<int> i_sp = std::make_shared<int>(8);
  std::shared_ptr<const int> i_csp = std::make_shared<const int>(9);
  std::shared_ptr<Base> b_sp = std::make_shared<Base>();
  std::shared_ptr<const Base> b_csp = std::make_shared<const Base>();
  std::shared_ptr<Derived> d_sp = std::make_shared<Derived>();
  std::shared_ptr<Base> d_as_b_sp = std::make_shared<Derived>();
  std::shared_ptr<Base> null_sp;
};
std::map<long, std::unique_ptr<World>> g_worlds;
World *g_w = nullptr;

long addr(const void *p) { return static_cast<long>(reinterpret_cast<std::uintptr_t>(p)); }
template<typename T> std::string val(const T &v) { return std::to_string(v); }
std::string val(const std::string &v) { return "s:" + v; }
std::string val(bool v) { return v ? "true" : "false"; }
std::string val(char v) { return "c:" + std::to_string(static_cast<int>(v)); }

void enter(const std::string &id, std::vector<std::string> vals, std::vector<long> addrs) { g_w->log.push_back(Entry{id, std::move(vals), std::move(addrs)}); }

mj::Value dump_log() {
  mj::Value a = mj::Value::array();
  for (const auto &e : g_w->log) {
    mj::Value o = mj::Value::object();
    o.set("id", e.id);
    mj::Value vs = mj::Value::array(), as = mj::Value::array();
    for (const auto &v : e.vals) vs.push(v);
    for (long x : e.addrs) as.push(x);
    o.set("vals", std::move(vs));
    o.set("addrs", std::move(as));
    a.push(std::move(o));
  }
  return a;
}

// the catalogue: id -> registration under a given name
using Adder = std::function<void(chaiscript::ChaiScript_Basic &, const std::string &)>;
const std::map<std::string, Adder> &catalogue() {
  using namespace chaiscript;
  static const std::map<std::string, Adder> c = {
    {"int", [](ChaiScript_Basic &ch, const std::string &n) { ch.add(fun([](int a) { enter("int", {val(a)}, {0}); return 1; }), n); }},
    {"cint_ref", [](ChaiScript_Basic &ch, const std::string &n) { ch.add(fun([](const int &a) { enter("cint_ref", {val(a)}, {addr(&a)}); return 1; }), n); }},
    {"int_ref", [](ChaiScript_Basic &ch, const std::string &n) { ch.add(fun([](int &a) { enter("int_ref", {val(a)}, {addr(&a)}); return 1; }), n); }},
    {"int_ptr", [](ChaiScript_Basic &ch, const std::string &n) { ch.add(fun([](int *a) { enter("int_ptr", {val(*a)}, {addr(a)}); return 1; }), n); }},
    {"cint_ptr", [](ChaiScript_Basic &ch, const std::string &n) { ch.add(fun([](const int *a) { enter("cint_ptr", {val(*a)}, {addr(a)}); return 1; }), n); }},
    {"int_sp", [](ChaiScript_Basic &ch, const std::string &n) { ch.add(fun([](std::shared_ptr<int> a) { enter("int_sp", {val(*a)}, {addr(a.get())}); return 1; }), n); }},
    {"cint_sp", [](ChaiScript_Basic &ch, const std::string &n) { ch.add(fun([](std::shared_ptr<const int> a) { enter("cint_sp", {val(*a)}, {addr(a.get())}); return 1; }), n); }},
    {"uint", [](ChaiScript_Basic &ch, const std::string &n) { ch.add(fun([](unsigned a) { enter("uint", {val(a)}, {0}); return 1; }), n); }},
    {"long", [](ChaiScript_Basic &ch, const std::string &n) { ch.add(fun([](long a) { enter("long", {val(a)}, {0}); return 1; }), n); }},
    {"double", [](ChaiScript_Basic &ch, const std::string &n) { ch.add(fun([](double a) { enter("double", {std::to_string(static_cast<long>(a * 1000))}, {0}); return 1; }), n); }},
    {"char", [](ChaiScript_Basic &ch, const std::string &n) { ch.add(fun([](char a) { enter("char", {val(a)}, {0}); return 1; }), n); }},
    {"bool", [](ChaiScript_Basic &ch, const std::string &n) { ch.add(fun([](bool a) { enter("bool", {val(a)}, {0}); return 1; }), n); }},
    {"str", [](ChaiScript_Basic &ch, const std::string &n) { ch.add(fun([](std::string a) { enter("str", {val(a)}, {0}); return 1; }), n); }},
    {"cstr_ref", [](ChaiScript_Basic &ch, const std::string &n) { ch.add(fun([](const std::string &a) { enter("cstr_ref", {val(a)}, {addr(&a)}); return 1; }), n); }},
    {"str_ref", [](ChaiScript_Basic &ch, const std::string &n) { ch.add(fun([](std::string &a) { enter("str_ref", {val(a)}, {addr(&a)}); return 1; }), n); }},
    {"base_ref", [](ChaiScript_Basic &ch, const std::string &n) { ch.add(fun([](Base &a) { enter("base_ref", {val(a.who())}, {addr(&a)}); return 1; }), n); }},
    {"cbase_ref", [](ChaiScript_Basic &ch, const std::string &n) { ch.add(fun([](const Base &a) { enter("cbase_ref", {val(a.who())}, {addr(&a)}); return 1; }), n); }},
    {"base_ptr", [](ChaiScript_Basic &ch, const std::string &n) { ch.add(fun([](Base *a) { enter("base_ptr", {a ? val(a->who()) : "null"}, {addr(a)}); return 1; }), n); }},
    {"base_sp", [](ChaiScript_Basic &ch, const std::string &n) { ch.add(fun([](std::shared_ptr<Base> a) { enter("base_sp", {a ? val(a->who()) : "null"}, {addr(a.get())}); return 1; }), n); }},
    {"cbase_sp", [](ChaiScript_Basic &ch, const std::string &n) { ch.add(fun([](std::shared_ptr<const Base> a) { enter("cbase_sp", {a ? val(a->who()) : "null"}, {addr(a.get())}); return 1; }), n); }},
    {"derived_ref", [](ChaiScript_Basic &ch, const std::string &n) { ch.add(fun([](Derived &a) { enter("derived_ref", {val(a.who())}, {addr(static_cast<Base *>(&a))}); return 1; }), n); }},
    {"cderived_ref", [](ChaiScript_Basic &ch, const std::string &n) { ch.add(fun([](const Derived &a) { enter("cderived_ref", {val(a.who())}, {addr(static_cast<const Base *>(&a))}); return 1; }), n); }},
    {"derived_sp", [](ChaiScript_Basic &ch, const std::string &n) { ch.add(fun([](std::shared_ptr<Derived> a) { enter("derived_sp", {val(a->who())}, {addr(static_cast<Base *>(a.get()))}); return 1; }), n); }},
    {"other_cref", [](ChaiScript_Basic &ch, const std::string &n) { ch.add(fun([](const Other &a) { enter("other_cref", {val(a.o)}, {addr(&a)}); return 1; }), n); }},
    {"sbase_cref", [](ChaiScript_Basic &ch, const std::string &n) { ch.add(fun([](const SBase &a) { enter("sbase_cref", {val(a.s)}, {addr(&a)}); return 1; }), n); }},
    {"sderived_cref", [](ChaiScript_Basic &ch, const std::string &n) { ch.add(fun([](const SDerived &a) { enter("sderived_cref", {val(a.t)}, {addr(static_cast<const SBase *>(&a))}); return 1; }), n); }},
    {"vec_cref", [](ChaiScript_Basic &ch, const std::string &n) { ch.add(fun([](const std::vector<int> &a) { enter("vec_cref", {val(static_cast<int>(a.size()))}, {0}); return 1; }), n); }},
    {"fn", [](ChaiScript_Basic &ch, const std::string &n) { ch.add(fun([](const std::function<int(int)> &f) { enter("fn", {val(f(10))}, {0}); return 1; }), n); }},
    {"bv", [](ChaiScript_Basic &ch, const std::string &n) { ch.add(fun([](const Boxed_Value &a) { enter("bv", {a.get_type_info().bare_name()}, {0}); return 1; }), n); }},
    {"bn", [](ChaiScript_Basic &ch, const std::string &n) { ch.add(fun([](const Boxed_Number &a) { enter("bn", {std::to_string(a.get_as<long long>())}, {0}); return 1; }), n); }},
    {"int_str", [](ChaiScript_Basic &ch, const std::string &n) { ch.add(fun([](int a, const std::string &b) { enter("int_str", {val(a), val(b)}, {0, addr(&b)}); return 1; }), n); }},
    {"str_int", [](ChaiScript_Basic &ch, const std::string &n) { ch.add(fun([](const std::string &a, int b) { enter("str_int", {val(a), val(b)}, {addr(&a), 0}); return 1; }), n); }},
    {"dbl_dbl", [](ChaiScript_Basic &ch, const std::string &n) { ch.add(fun([](double a, double b) { enter("dbl_dbl", {std::to_string(static_cast<long>(a * 1000)), std::to_string(static_cast<long>(b * 1000))}, {0, 0}); return 1; }), n); }},
    {"cbase_int", [](ChaiScript_Basic &ch, const std::string &n) { ch.add(fun([](const Base &a, int b) { enter("cbase_int", {val(a.who()), val(b)}, {addr(&a), 0}); return 1; }), n); }},
    {"none", [](ChaiScript_Basic &ch, const std::string &n) { ch.add(fun([]() { enter("none", {}, {}); return 1; }), n); }},
  };
  return c;
}
}

static mj::Value cmd_c06(const mj::Value &rq) {
  mj::Value r = mj::Value::object();
  const std::string op = rq.at("op").str();
  if (op == "catalogue") {
    mj::Value a = mj::Value::array();
    for (const auto &kv : catalogue()) a.push(kv.first);
    r.set("ids", std::move(a));
    return r;
  }
  if (op == "new") {
    mj::Value o = mj::Value::object();
    o.set("opt", true);
    const long id = new_engine(o);
    auto &chai = *slot(id).chai;
    g_worlds[id] = std::make_unique<World>();
    World *w = g_worlds[id].get();
    g_w = w;
    using namespace chaiscript;
    chai.add(user_type<Base>(), "Base");
    chai.add(user_type<Derived>(), "Derived");
    chai.add(user_type<Sibling>(), "Sibling");
    chai.add(user_type<Other>(), "Other");
    chai.add(user_type<SBase>(), "SBase");
    chai.add(user_type<SDerived>(), "SDerived");
    if (rq.at("base_class").boolean(true)) {
      chai.add(base_class<Base, Derived>());
      chai.add(base_class<Base, Sibling>());
      chai.add(base_class<SBase, SDerived>());
    }
    if (rq.at("vector_conversion").boolean(false)) chai.add(vector_conversion<std::vector<int>>());
    if (rq.at("user_conversion").boolean(false)) chai.add(type_conversion<Other, int>([](const Other &o) { return o.o; }));
    for (const auto &f : rq.at("overloads").a) catalogue().at(f.str())(chai, "ov");
    chai.add(fun(&Base::m_val), "m_val");
    chai.add(fun(&Base::x), "x");
    // argument values of every kind
    chai.add(var(std::ref(w->i_obj)), "a_iref");
    chai.add(var(std::cref(w->i_obj)), "a_icref");
    chai.add(var(&w->i_obj), "a_iptr");
    chai.add(var(static_cast<const int *>(&w->i_obj)), "a_icptr");
    chai.add(var(w->i_sp), "a_isp");
    chai.add(var(w->i_csp), "a_icsp");
    chai.add(const_var(6), "a_cvint");
    chai.add(var(std::ref(w->s_obj)), "a_sref");
    chai.add(var(std::cref(w->s_obj)), "a_scref");
    chai.add(var(std::ref(w->base)), "a_bref");
    chai.add(var(std::cref(w->base)), "a_bcref");
    chai.add(var(&w->base), "a_bptr");
    chai.add(var(static_cast<const Base *>(&w->base)), "a_bcptr");
    chai.add(var(w->b_sp), "a_bsp");
    chai.add(var(w->b_csp), "a_bcsp");
    chai.add(var(std::ref(w->derived)), "a_dref");
    chai.add(var(std::cref(w->derived)), "a_dcref");
    chai.add(var(w->d_sp), "a_dsp");
    chai.add(var(w->d_as_b_sp), "a_dasb");
    chai.add(var(std::ref(static_cast<Base &>(w->sibling))), "a_sib_as_bref");
    chai.add(var(w->null_sp), "a_nullsp");
    chai.add(var(std::ref(w->other)), "a_oth");
    chai.add(var(std::cref(w->sbase)), "a_sb");
    chai.add(var(std::cref(w->sderived)), "a_sd");
    mj::Value ad = mj::Value::object();
    ad.set("i_obj", addr(&w->i_obj));
    ad.set("s_obj", addr(&w->s_obj));
    ad.set("i_sp", addr(w->i_sp.get()));
    ad.set("i_csp", addr(w->i_csp.get()));
    ad.set("base", addr(&w->base));
    ad.set("b_sp", addr(w->b_sp.get()));
    ad.set("b_csp", addr(w->b_csp.get()));
    ad.set("derived", addr(static_cast<Base *>(&w->derived)));
    ad.set("d_sp", addr(static_cast<Base *>(w->d_sp.get())));
    ad.set("d_as_b", addr(w->d_as_b_sp.get()));
    ad.set("sibling", addr(static_cast<Base *>(&w->sibling)));
    ad.set("other", addr(&w->other));
    ad.set("sbase", addr(&w->sbase));
    ad.set("sderived", addr(static_cast<SBase *>(&w->sderived)));
    r.set("addresses", std::move(ad));
    r.set("id", id);
    return r;
  }
  const long id = rq.at("id").num();
  if (op == "del") {      // tolerant: after a crash of the previous runner process the id no longer exists
    del_engine(id);
    g_worlds.erase(id);
    return r;
  }
  g_w = g_worlds.at(id).get();
  if (op == "call") {
    g_w->log.clear();
    mj::Value res = eval_on(slot(id), rq.at("script").str(), "__EVAL__");
    res.set("entries", dump_log());
    return res;
  }
  if (op == "cast") {
    // the C++-receives direction: boxed_cast<T> of a script value
    auto &chai = *slot(id).chai;
    const std::string want = rq.at("want").str();
    mj::Value out = mj::Value::object();
    try {
      const Boxed_Value bv = chai.eval(rq.at("script").str());
      if (want == "int") out.set("got", val(chai.boxed_cast<int>(bv)));
      else if (want == "int_ref") { int &x = chai.boxed_cast<int &>(bv); out.set("got", val(x)); out.set("addr", addr(&x)); }
      else if (want == "cint_ref") { const int &x = chai.boxed_cast<const int &>(bv); out.set("got", val(x)); out.set("addr", addr(&x)); }
      else if (want == "int_ptr") { int *x = chai.boxed_cast<int *>(bv); out.set("got", val(*x)); out.set("addr", addr(x)); }
      else if (want == "double") out.set("got", std::to_string(static_cast<long>(chai.boxed_cast<double>(bv) * 1000)));
      else if (want == "bool") out.set("got", val(chai.boxed_cast<bool>(bv)));
      else if (want == "str") out.set("got", val(chai.boxed_cast<std::string>(bv)));
      else if (want == "str_ref") { std::string &x = chai.boxed_cast<std::string &>(bv); out.set("got", val(x)); out.set("addr", addr(&x)); }
      else if (want == "base_ref") { Base &x = chai.boxed_cast<Base &>(bv); out.set("got", val(x.who())); out.set("addr", addr(&x)); }
      else if (want == "cbase_ref") { const Base &x = chai.boxed_cast<const Base &>(bv); out.set("got", val(x.who())); out.set("addr", addr(&x)); }
      else if (want == "derived_ref") { Derived &x = chai.boxed_cast<Derived &>(bv); out.set("got", val(x.who())); out.set("addr", addr(static_cast<Base *>(&x))); }
      else if (want == "base_sp") { auto x = chai.boxed_cast<std::shared_ptr<Base>>(bv); out.set("got", x ? val(x->who()) : "null"); out.set("addr", addr(x.get())); }
      else if (want == "other_ref") { Other &x = chai.boxed_cast<Other &>(bv); out.set("got", val(x.o)); out.set("addr", addr(&x)); }
      else if (want == "fn") { auto f = chai.boxed_cast<std::function<int(int)>>(bv); out.set("got", val(f(10))); }
      else throw std::runtime_error("c06: unknown cast target");
    } catch (const chaiscript::exception::bad_boxed_cast &) {
      out.set("exc", "bad_boxed_cast");
    } catch (const chaiscript::exception::eval_error &e) {
      out.set("exc", "eval_error");
      out.set("why", e.reason);
    } catch (const std::exception &e) {
      out.set("exc", std::string("other:") + typeid(e).name());
    }
    take_stdout();
    return out;
  }
  if (op == "del") {
    del_engine(id);
    g_worlds.erase(id);
    return r;
  }
  throw std::runtime_error("c06: unknown op");
}
static Registrar r_c06("c06", cmd_c06);
}
