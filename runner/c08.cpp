// C08 support: parse once, evaluate the same tree n times; dump the tree (structure + every constant's value) before and after.
#include "runner/core.hpp"
#include "common/ast_walk.hpp"
namespace vr {
static std::string deep_dump(const chaiscript::AST_Node &root) {
  std::string out;
  verif::walk(root, [&](const chaiscript::AST_Node &n, int depth) {
    out += std::string(static_cast<size_t>(depth), ' ') + chaiscript::ast_node_type_to_string(n.identifier) + ":" + n.text;
    if (n.identifier == chaiscript::AST_Node_Type::Constant) {
      if (auto *c = dynamic_cast<const chaiscript::eval::Constant_AST_Node<verif::Tracer> *>(&n)) { out += " = " + render(c->m_value); }
    }
    out += "\n";
  });
  return out;
}
static mj::Value cmd_reeval(const mj::Value &rq) {
  Slot &s = slot(rq.at("id").num());
  mj::Value r = mj::Value::object();
  chaiscript::AST_NodePtr tree;
  try {
    tree = s.chai->parse(rq.at("script").str());
  } catch (const chaiscript::exception::eval_error &e) {
    r.set("parse_error", e.reason);
    return r;
  }
  r.set("dump_before", deep_dump(*tree));
  mj::Value results = mj::Value::array();
  s.h->rec.clear();
  for (long i = 0; i < rq.at("n").num(3); ++i) {
    mj::Value one = mj::Value::object();
    guarded(one, [&]() { return s.chai->eval(*tree); });
    one.set("out", take_stdout());
    mj::Value rec = mj::Value::array();
    for (const auto &x : s.h->rec) rec.push(x);
    s.h->rec.clear();
    one.set("rec", std::move(rec));
    results.push(std::move(one));
  }
  r.set("results", std::move(results));
  r.set("dump_after", deep_dump(*tree));
  return r;
}
static Registrar r_reeval("reeval", cmd_reeval);
}
