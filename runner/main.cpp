// Engine H, C++ side: a persistent process that evaluates scripts on fresh or long-lived engines and reports
// everything observable (stdout, result, exception class, harness logs) as one JSON line per request.
#include "runner/core.hpp"

#include <chaiscript/language/chaiscript_tracer.hpp>

#include <csignal>
#include <cstdio>
#include <cstring>
#include <fcntl.h>
#include <iostream>
#include <sys/mman.h>
#include <unistd.h>

namespace vr {

static std::map<long, Slot> g_slots;
static long g_next_id = 1;
static int g_out_fd = -1;   // protocol replies
static int g_cap_fd = -1;   // memfd receiving the script's stdout
static bool g_use_espec = false;  // evaluate with exception_specification<int, const std::out_of_range &>

static std::map<std::string, Command> &commands() {
  static std::map<std::string, Command> c;
  return c;
}
void register_command(const std::string &name, Command c) { commands()[name] = std::move(c); }

Slot &slot(long id) {
  auto it = g_slots.find(id);
  if (it == g_slots.end()) throw std::runtime_error("no such engine slot");
  return it->second;
}

std::string take_stdout() {
  std::fflush(stdout);
  std::cout.flush();
  const off_t len = lseek(g_cap_fd, 0, SEEK_CUR);
  std::string out(static_cast<size_t>(len > 0 ? len : 0), '\0');
  if (len > 0) {
    const ssize_t r = pread(g_cap_fd, &out[0], static_cast<size_t>(len), 0);
    (void)r;
  }
  if (ftruncate(g_cap_fd, 0) != 0) {}
  lseek(g_cap_fd, 0, SEEK_SET);
  return out;
}

// ---- rendering ---------------------------------------------------------------------------------
template<typename T>
static bool is_a(const Boxed_Value &bv) { return bv.get_type_info().bare_equal_type_info(typeid(T)); }

std::string type_tag(const Boxed_Value &bv) {
  if (bv.is_undef()) return "undef";
  if (is_a<void>(bv)) return "void";
  if (is_a<bool>(bv)) return "bool";
  if (is_a<char>(bv)) return "char";
  if (is_a<signed char>(bv)) return "i8";
  if (is_a<unsigned char>(bv)) return "u8";
  if (is_a<short>(bv)) return "i16";
  if (is_a<unsigned short>(bv)) return "u16";
  if (is_a<int>(bv)) return "i32";
  if (is_a<unsigned int>(bv)) return "u32";
  if (is_a<long>(bv) || is_a<long long>(bv)) return "i64";
  if (is_a<unsigned long>(bv) || is_a<unsigned long long>(bv)) return "u64";
  if (is_a<float>(bv)) return "f32";
  if (is_a<double>(bv)) return "f64";
  if (is_a<long double>(bv)) return "f80";
  if (is_a<wchar_t>(bv)) return "wchar";
  if (is_a<char16_t>(bv)) return "c16";
  if (is_a<char32_t>(bv)) return "c32";
  if (is_a<std::string>(bv)) return "str";
  if (is_a<std::vector<Boxed_Value>>(bv)) return "vec";
  if (is_a<std::map<std::string, Boxed_Value>>(bv)) return "map";
  if (is_a<std::pair<Boxed_Value, Boxed_Value>>(bv)) return "pair";
  if (is_a<std::pair<const std::string, Boxed_Value>>(bv)) return "mpair";
  if (is_a<chaiscript::dispatch::Dynamic_Object>(bv)) return "dyn";
  if (is_a<chaiscript::dispatch::Proxy_Function_Base>(bv) || is_a<chaiscript::dispatch::Assignable_Proxy_Function>(bv)) return "fn";
  return std::string("obj<") + bv.get_type_info().bare_name() + ">";
}

static std::string quote(const std::string &s) {
  std::string o;
  mj::esc(o, s);
  return o;
}

template<typename T>
static std::string num(const Boxed_Value &bv, const char *fmt) {
  char buf[80];
  std::snprintf(buf, sizeof buf, fmt, chaiscript::boxed_cast<T>(bv));
  return buf;
}

std::string render(const Boxed_Value &bv, int depth) {
  const std::string t = type_tag(bv);
  if (depth > 8) return t + ":...";
  try {
    if (t == "undef" || t == "void") return t;
    if (t == "bool") return chaiscript::boxed_cast<bool>(bv) ? "bool:true" : "bool:false";
    if (t == "char") return "char:" + std::to_string(static_cast<int>(chaiscript::boxed_cast<char>(bv)));
    if (t == "i8") return "i8:" + std::to_string(static_cast<int>(chaiscript::boxed_cast<signed char>(bv)));
    if (t == "u8") return "u8:" + std::to_string(static_cast<int>(chaiscript::boxed_cast<unsigned char>(bv)));
    if (t == "i16") return "i16:" + std::to_string(chaiscript::boxed_cast<short>(bv));
    if (t == "u16") return "u16:" + std::to_string(chaiscript::boxed_cast<unsigned short>(bv));
    if (t == "i32") return "i32:" + std::to_string(chaiscript::boxed_cast<int>(bv));
    if (t == "u32") return "u32:" + std::to_string(chaiscript::boxed_cast<unsigned int>(bv));
    if (t == "i64") return "i64:" + (is_a<long>(bv) ? std::to_string(chaiscript::boxed_cast<long>(bv)) : std::to_string(chaiscript::boxed_cast<long long>(bv)));
    if (t == "u64") return "u64:" + (is_a<unsigned long>(bv) ? std::to_string(chaiscript::boxed_cast<unsigned long>(bv)) : std::to_string(chaiscript::boxed_cast<unsigned long long>(bv)));
    if (t == "f32") return "f32:" + num<float>(bv, "%.9g");
    if (t == "f64") return "f64:" + num<double>(bv, "%.17g");
    if (t == "f80") return "f80:" + num<long double>(bv, "%.21Lg");
    if (t == "str") return "str:" + quote(chaiscript::boxed_cast<const std::string &>(bv));
    if (t == "vec") {
      const auto &v = chaiscript::boxed_cast<const std::vector<Boxed_Value> &>(bv);
      std::string o = "[";
      for (size_t i = 0; i < v.size(); ++i) { o += (i ? ", " : "") + render(v[i], depth + 1); }
      return o + "]";
    }
    if (t == "map") {
      const auto &m = chaiscript::boxed_cast<const std::map<std::string, Boxed_Value> &>(bv);
      std::string o = "{";
      bool first = true;
      for (const auto &kv : m) { o += (first ? "" : ", ") + quote(kv.first) + ": " + render(kv.second, depth + 1); first = false; }
      return o + "}";
    }
    if (t == "pair") {
      const auto &p = chaiscript::boxed_cast<const std::pair<Boxed_Value, Boxed_Value> &>(bv);
      return "<" + render(p.first, depth + 1) + ", " + render(p.second, depth + 1) + ">";
    }
    if (t == "mpair") {
      const auto &p = chaiscript::boxed_cast<const std::pair<const std::string, Boxed_Value> &>(bv);
      return "<" + quote(p.first) + ", " + render(p.second, depth + 1) + ">";
    }
    if (t == "dyn") {
      const auto &d = chaiscript::boxed_cast<const chaiscript::dispatch::Dynamic_Object &>(bv);
      std::string o = d.get_type_name() + "{";
      bool first = true;
      for (const auto &kv : d.get_attrs()) { o += (first ? "" : ", ") + kv.first + ": " + render(kv.second, depth + 1); first = false; }
      return o + "}";
    }
    if (t == "fn") return "fn";
    return t;
  } catch (const std::exception &e) {
    return t + ":<unrenderable " + e.what() + ">";
  }
}

// ---- exception classification ----------------------------------------------------------------------
static mj::Value describe_eval_error(const chaiscript::exception::eval_error &e) {
  mj::Value x = mj::Value::object();
  x.set("kind", "eval_error");
  x.set("reason", e.reason);
  x.set("what", std::string(e.what()).substr(0, 600));
  x.set("file", e.filename);
  x.set("line", e.start_position.line);
  x.set("col", e.start_position.column);
  mj::Value st = mj::Value::array();
  for (const auto &t : e.call_stack) {
    mj::Value f = mj::Value::object();
    f.set("id", std::string(chaiscript::ast_node_type_to_string(t.identifier)));
    f.set("text", t.text.substr(0, 80));
    f.set("file", t.filename());
    f.set("line", t.start().line);
    f.set("col", t.start().column);
    st.push(std::move(f));
  }
  x.set("stack", std::move(st));
  return x;
}

void guarded(mj::Value &reply, const std::function<Boxed_Value()> &f) {
  auto exc = [&](const char *kind, const std::string &what, const std::string &type) {
    mj::Value x = mj::Value::object();
    x.set("kind", kind);
    x.set("what", what.substr(0, 600));
    x.set("type", type);
    reply.set("exc", std::move(x));
  };
  try {
    const Boxed_Value r = f();
    mj::Value res = mj::Value::object();
    res.set("t", type_tag(r));
    res.set("ctype", is_a<long long>(r) ? "long long" : is_a<unsigned long long>(r) ? "unsigned long long" : is_a<long>(r) ? "long"
                     : is_a<unsigned long>(r) ? "unsigned long" : is_a<int>(r) ? "int" : is_a<unsigned int>(r) ? "unsigned int" : "");
    res.set("r", render(r));
    res.set("const", r.is_const());
    res.set("ref", r.is_ref());
    reply.set("res", std::move(res));
  } catch (const chaiscript::exception::eval_error &e) {
    reply.set("exc", describe_eval_error(e));
  } catch (const chaiscript::exception::arithmetic_error &e) {
    exc("arithmetic_error", e.what(), typeid(e).name());
  } catch (const chaiscript::exception::bad_boxed_cast &e) {
    exc("bad_boxed_cast", e.what(), typeid(e).name());
  } catch (const chaiscript::exception::file_not_found_error &e) {
    exc("file_not_found_error", e.what(), typeid(e).name());
  } catch (const chaiscript::exception::dispatch_error &e) {
    exc("dispatch_error", e.what(), typeid(e).name());
  } catch (const chaiscript::exception::guard_error &e) {
    exc("guard_error", e.what(), typeid(e).name());
  } catch (const Boxed_Value &bv) {
    mj::Value x = mj::Value::object();
    x.set("kind", "boxed");
    x.set("t", type_tag(bv));
    x.set("r", render(bv));
    reply.set("exc", std::move(x));
  } catch (const std::out_of_range &e) {
    exc(typeid(e) == typeid(std::out_of_range) ? "std::out_of_range" : "std", e.what(), typeid(e).name());
  } catch (const std::logic_error &e) {
    exc(typeid(e) == typeid(std::logic_error) ? "std::logic_error" : "std", e.what(), typeid(e).name());
  } catch (const UserErr &e) {
    exc("user_err", e.what(), typeid(e).name());
  } catch (const std::runtime_error &e) {
    exc(typeid(e) == typeid(std::runtime_error) ? "std::runtime_error" : "std", e.what(), typeid(e).name());
  } catch (const std::exception &e) {
    exc("std", e.what(), typeid(e).name());
  } catch (const Foreign &) {
    exc("foreign", "", "Foreign");
  } catch (int v) {
    exc("int", std::to_string(v), "int");
  } catch (...) {
    exc("unknown", "", "?");
  }
}

// ---- engines -------------------------------------------------------------------------------------
mj::Value stack_shape(chaiscript::ChaiScript_Basic &chai) {
  auto &eng = chai.verif_engine();
  auto &h = eng.get_stack_holder();
  mj::Value v = mj::Value::object();
  v.set("stacks", static_cast<long>(h.stacks.size()));
  v.set("scopes", static_cast<long>(h.stacks.back().size()));
  v.set("call_params", static_cast<long>(h.call_params.size()));
  v.set("call_params_back", static_cast<long>(h.call_params.back().size()));
  v.set("call_depth", h.call_depth);
  auto &saves = eng.conversions().conversion_saves();
  v.set("saves_enabled", saves.enabled);
  v.set("saves", static_cast<long>(saves.saves.size()));
  return v;
}

static void throw_kind(const std::string &k) {
  if (k == "runtime_error") throw std::runtime_error("cb-runtime");
  if (k == "out_of_range") throw std::out_of_range("cb-range");
  if (k == "logic_error") throw std::logic_error("cb-logic");
  if (k == "user") throw UserErr();
  if (k == "int") throw 7;
  if (k == "foreign") throw Foreign();
  if (k == "boxed") throw Boxed_Value(std::string("cb-boxed"));
  if (k == "eval_error") throw chaiscript::exception::eval_error("cb-eval-error");
  throw std::runtime_error("cb-unknown-kind");
}

long new_engine(const mj::Value &opts) {
  const long id = g_next_id++;
  Slot &s = g_slots[id];
  s.h = std::make_unique<Harness>();
  s.optimize = opts.at("opt").boolean(true);
  std::vector<std::string> usepaths, modpaths;
  for (const auto &p : opts.at("usepaths").a) usepaths.push_back(p.str());
  for (const auto &p : opts.at("modulepaths").a) modpaths.push_back(p.str());
  s.chai = std::make_unique<chaiscript::ChaiScript_Basic>(verif_stdlib(), verif_parser(s.optimize), modpaths, usepaths);
  Harness *h = s.h.get();
  chaiscript::ChaiScript_Basic *chai = s.chai.get();
  if (!opts.at("bare").boolean(false)) {
    chai->add(chaiscript::fun([h](const Boxed_Value &v) { h->rec.push_back(render(v)); }), "rec");
    chai->add(chaiscript::fun([h](const std::string &tag) { h->trace.push_back(tag); }), "mark");
    chai->add(chaiscript::var(std::ref(h->counter)), "counter");
    chai->add(chaiscript::var(std::ref(h->sink)), "sink");
    chai->add(chaiscript::fun([h](int v) { h->sink.push_back(v); }), "sink_push");
    chai->add(chaiscript::fun([](const std::string &kind) -> int { throw_kind(kind); return 0; }), "thr");
    // const containers published by the host (C12: bounds checks on the const overloads)
    chai->add_global_const(chaiscript::const_var(std::vector<Boxed_Value>{Boxed_Value(10), Boxed_Value(20), Boxed_Value(30)}), "cvec_h");
    chai->add_global_const(chaiscript::const_var(std::string("hello")), "cstr_h");
    chai->add(chaiscript::fun([h, chai](const std::string &tag) -> int {
                ++h->cb_total;
                ++h->cb_calls[tag];
                if (h->cb_fail_at != 0 && h->cb_total == h->cb_fail_at) {
                  h->cb_shape = stack_shape(*chai);
                  throw_kind(h->cb_fail_kind);
                }
                return static_cast<int>(h->cb_total);
              }),
              "cb");
  }
  return id;
}

void del_engine(long id) { g_slots.erase(id); }

mj::Value eval_on(Slot &s, const std::string &script, const std::string &fname, bool cache_off) {
  mj::Value reply = mj::Value::object();
  chaiscript::verif::lookup_cache_off().store(cache_off);
  const auto hits0 = chaiscript::verif::lookup_fast_hits().load();
  guarded(reply, [&]() {
    return s.chai->eval(script, g_use_espec ? chaiscript::exception_specification<int, const std::out_of_range &>() : chaiscript::Exception_Handler(), fname);
  });
  chaiscript::verif::lookup_cache_off().store(false);
  reply.set("fast_hits", static_cast<long>(chaiscript::verif::lookup_fast_hits().load() - hits0));
  reply.set("out", take_stdout());
  mj::Value rec = mj::Value::array();
  for (const auto &r : s.h->rec) rec.push(r);
  reply.set("rec", std::move(rec));
  mj::Value tr = mj::Value::array();
  for (const auto &r : s.h->trace) tr.push(r);
  reply.set("trace", std::move(tr));
  reply.set("counter", s.h->counter);
  mj::Value sink = mj::Value::array();
  for (int v : s.h->sink) sink.push(v);
  reply.set("sink", std::move(sink));
  reply.set("cb_total", s.h->cb_total);
  return reply;
}

// ---- generic commands ---------------------------------------------------------------------------
static mj::Value cmd_new(const mj::Value &rq) {
  mj::Value r = mj::Value::object();
  r.set("id", new_engine(rq));
  return r;
}
static mj::Value cmd_del(const mj::Value &rq) {
  del_engine(rq.at("id").num());
  return mj::Value::object();
}
static mj::Value cmd_eval(const mj::Value &rq) {
  Slot &s = slot(rq.at("id").num());
  if (rq.has("cb_fail_at")) {
    s.h->cb_fail_at = rq.at("cb_fail_at").num();
    s.h->cb_fail_kind = rq.at("cb_fail_kind").str("runtime_error");
  }
  for (const auto &kv : rq.at("set_str").o) { s.chai->set_global(chaiscript::var(kv.second.str()), kv.first); }
  mj::Value r = eval_on(s, rq.at("script").str(), rq.at("fname").str("__EVAL__"), rq.at("cache_off").boolean(false));
  if (rq.at("shape").boolean(false)) r.set("shape", stack_shape(*s.chai));
  return r;
}
// fresh engine(s), one script, everything destroyed afterwards: {"engines":[{"opt":true,"cache_off":false},...], "script":...}
static mj::Value cmd_run(const mj::Value &rq) {
  struct Espec { explicit Espec(bool v) { g_use_espec = v; } ~Espec() { g_use_espec = false; } } espec_guard(rq.at("espec").boolean(false));
  mj::Value out = mj::Value::object();
  mj::Value results = mj::Value::array();
  for (const auto &e : rq.at("engines").a) {
    const long id = new_engine(e);
    Slot &s = slot(id);
    if (e.has("cb_fail_at")) {
      s.h->cb_fail_at = e.at("cb_fail_at").num();
      s.h->cb_fail_kind = e.at("cb_fail_kind").str("runtime_error");
    }
    mj::Value r;
    for (const auto &pre : rq.at("pre").a) { r = eval_on(s, pre.str(), "__PRE__", e.at("cache_off").boolean(false)); }
    r = eval_on(s, rq.at("script").str(), rq.at("fname").str("__EVAL__"), e.at("cache_off").boolean(false));
    if (rq.at("shape").boolean(false)) {
      r.set("shape", stack_shape(*s.chai));
      if (!s.h->cb_shape.is_null()) r.set("cb_shape", s.h->cb_shape);
      mj::Value names = mj::Value::array();
      for (const auto &kv : s.chai->get_locals()) names.push(kv.first);
      r.set("locals", std::move(names));
    }
    if (rq.has("post")) {
      mj::Value posts = mj::Value::array();
      for (const auto &p : rq.at("post").a) { posts.push(eval_on(s, p.str(), "__POST__", e.at("cache_off").boolean(false))); }
      r.set("post", std::move(posts));
      if (rq.at("shape").boolean(false)) r.set("shape_after_post", stack_shape(*s.chai));
    }
    del_engine(id);
    results.push(std::move(r));
  }
  out.set("results", std::move(results));
  return out;
}
// C++ API entry points eval_file / use on an engine slot
static mj::Value cmd_file(const mj::Value &rq) {
  Slot &s = slot(rq.at("id").num());
  mj::Value reply = mj::Value::object();
  const std::string path = rq.at("path").str();
  const bool use = rq.at("cmd").str() == "use";
  guarded(reply, [&]() { return use ? s.chai->use(path) : s.chai->eval_file(path); });
  reply.set("out", take_stdout());
  mj::Value rec = mj::Value::array();
  for (const auto &r : s.h->rec) rec.push(r);
  reply.set("rec", std::move(rec));
  return reply;
}
static mj::Value cmd_ping(const mj::Value &) {
  mj::Value r = mj::Value::object();
  r.set("pong", true);
  return r;
}

static Registrar r_file("eval_file", cmd_file), r_use("use", cmd_file);
static Registrar r_new("new", cmd_new), r_del("del", cmd_del), r_eval("eval", cmd_eval), r_run("run", cmd_run), r_ping("ping", cmd_ping);

} // namespace vr

int main() {
  // protocol: one JSON request per line on stdin, one JSON reply per line on a dup of the original stdout;
  // fd 1 itself is redirected into a memfd so that everything the script prints can be returned with the reply.
  vr::g_out_fd = dup(1);
  vr::g_cap_fd = memfd_create("script-stdout", 0);
  if (vr::g_out_fd < 0 || vr::g_cap_fd < 0) return 3;
  dup2(vr::g_cap_fd, 1);
  std::signal(SIGPIPE, SIG_IGN);
  std::string line;
  while (std::getline(std::cin, line)) {
    mj::Value reply;
    alarm(static_cast<unsigned>(std::getenv("VERIF_CASE_TIMEOUT") ? std::atoi(std::getenv("VERIF_CASE_TIMEOUT")) : 60));
    try {
      const mj::Value rq = mj::parse(line);
      const std::string cmd = rq.at("cmd").str();
      auto it = vr::commands().find(cmd);
      if (it == vr::commands().end()) throw std::runtime_error("unknown command " + cmd);
      reply = it->second(rq);
      if (reply.kind != mj::Value::Obj) reply = mj::Value::object();
    } catch (const std::exception &e) {
      reply = mj::Value::object();
      reply.set("harness_error", std::string(e.what()));
    }
    alarm(0);
    std::string out = mj::dump(reply);
    out += '\n';
    size_t off = 0;
    while (off < out.size()) {
      const ssize_t w = write(vr::g_out_fd, out.data() + off, out.size() - off);
      if (w <= 0) return 4;
      off += static_cast<size_t>(w);
    }
  }
  return 0;
}
