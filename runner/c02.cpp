// C02 support: parse a script with both parser pipelines and describe the two trees (full walk incl. function bodies).
#include "runner/core.hpp"
#include "common/ast_walk.hpp"
namespace vr {
static mj::Value describe(bool optimize, const std::string &script) {
  mj::Value r = mj::Value::object();
  try {
    auto parser = verif_parser(optimize);
    auto tree = parser->parse(script, "__EVAL__");
    std::map<std::string, long> hist;
    std::string dump;
    verif::walk(*tree, [&](const chaiscript::AST_Node &n, int depth) {
      const std::string id = chaiscript::ast_node_type_to_string(n.identifier);
      ++hist[id];
      if (dump.size() < 200000) { dump += std::string(static_cast<size_t>(depth), ' ') + id + ":" + n.text + "\n"; }
    });
    mj::Value h = mj::Value::object();
    for (const auto &kv : hist) h.set(kv.first, kv.second);
    r.set("hist", std::move(h));
    r.set("dump", dump);
  } catch (const chaiscript::exception::eval_error &e) {
    r.set("parse_error", e.reason);
  }
  return r;
}
static mj::Value cmd_trees(const mj::Value &rq) {
  mj::Value r = mj::Value::object();
  r.set("opt", describe(true, rq.at("script").str()));
  r.set("noopt", describe(false, rq.at("script").str()));
  return r;
}
static Registrar r_trees("trees", cmd_trees);
}
