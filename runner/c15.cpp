// C15 support: snapshots (get_state / set_state), C++-side additions, and probes of the global environment.
#include "runner/core.hpp"
namespace vr {
struct T0 {}; struct T1 {}; struct T2 {}; struct T3 {};
static std::map<long, std::vector<chaiscript::ChaiScript_Basic::State>> g_snaps;

static mj::Value cmd_c15(const mj::Value &rq) {
  const long id = rq.at("id").num();
  Slot &s = slot(id);
  auto &chai = *s.chai;
  mj::Value r = mj::Value::object();
  const std::string op = rq.at("op").str();
  if (op == "get_state") {
    g_snaps[id].push_back(chai.get_state());
    r.set("snap", static_cast<long>(g_snaps[id].size() - 1));
    return r;
  }
  if (op == "set_state") {
    chai.set_state(g_snaps[id].at(static_cast<size_t>(rq.at("snap").num())));
    return r;
  }
  if (op == "drop") { g_snaps.erase(id); return r; }
  if (op == "add_fun" || op == "add_type" || op == "add_global_const") {
    const std::string name = rq.at("name").str();
    const long k = rq.at("k").num();
    guarded(r, [&]() {
      if (op == "add_fun") {
        if (rq.at("variant").str() == "int") chai.add(chaiscript::fun([k](int x) { return x + static_cast<int>(k); }), name);
        else chai.add(chaiscript::fun([k](const std::string &x) { return static_cast<int>(x.size()) + static_cast<int>(k); }), name);
      } else if (op == "add_type") {
        switch (k % 4) {
          case 0: chai.add(chaiscript::user_type<T0>(), name); break;
          case 1: chai.add(chaiscript::user_type<T1>(), name); break;
          case 2: chai.add(chaiscript::user_type<T2>(), name); break;
          default: chai.add(chaiscript::user_type<T3>(), name); break;
        }
      } else {
        chai.add_global_const(chaiscript::const_var(static_cast<int>(k)), name);
      }
      return Boxed_Value();
    });
    return r;
  }
  if (op == "probe") {
    const std::string prefix = "zz_";
    const auto st = chai.get_state();
    mj::Value funs = mj::Value::array(), globals = mj::Value::object(), types = mj::Value::array(), locals = mj::Value::array(), used = mj::Value::array(), fobj = mj::Value::array();
    std::map<std::string, long> overloads;
    for (const auto &f : chai.verif_engine().get_functions()) { if (f.first.compare(0, 3, prefix) == 0 || f.first.compare(0, 2, "Zz") == 0) ++overloads[f.first]; }
    mj::Value ov = mj::Value::object();
    for (const auto &kv : overloads) ov.set(kv.first, kv.second);
    for (const auto &f : chai.verif_engine().get_function_objects()) { if (f.first.compare(0, 3, prefix) == 0 || f.first.compare(0, 2, "Zz") == 0) fobj.push(f.first); }
    for (const auto &g : st.engine_state.m_global_objects) {
      if (g.first.compare(0, 3, prefix) == 0) globals.set(g.first, g.second.is_const() ? render(g.second) : std::string("mutable"));
    }
    for (const auto &t : chai.verif_engine().get_types()) { if (t.first.compare(0, 3, "ZzT") == 0) types.push(t.first); }
    for (const auto &l : chai.get_locals()) { if (l.first.compare(0, 3, prefix) == 0) locals.push(l.first); }
    for (const auto &u : st.used_files) used.push(u);
    r.set("overloads", std::move(ov));
    r.set("function_objects", std::move(fobj));
    r.set("globals", std::move(globals));
    r.set("types", std::move(types));
    r.set("locals", std::move(locals));
    r.set("used", std::move(used));
    mj::Value exists = mj::Value::object();
    for (const auto &n : rq.at("exists").a) exists.set(n.str(), chai.verif_engine().function_exists(n.str()));
    r.set("exists", std::move(exists));
    return r;
  }
  throw std::runtime_error("c15: unknown op " + op);
}
static Registrar r_c15("c15", cmd_c15);
}
