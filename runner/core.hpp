// Runner core shared by all runner translation units: engine slots, value rendering, exception classification.
#ifndef VERIF_RUNNER_CORE_HPP
#define VERIF_RUNNER_CORE_HPP

#include <chaiscript/chaiscript_basic.hpp>
#include "common/mjson.hpp"
#include "lib/verif_lib.hpp"

#include <functional>
#include <map>
#include <memory>
#include <string>
#include <vector>

namespace vr {

using chaiscript::Boxed_Value;

// ---- per-engine harness state ------------------------------------------------------------------
struct Harness {
  std::vector<std::string> rec;          // rec(x) log
  int counter = 0;                       // C++ object registered by reference
  std::vector<int> sink;                 // C++ vector registered by reference
  std::map<std::string, long> cb_calls;  // cb(tag) invocations
  long cb_total = 0;
  long cb_fail_at = 0;                   // 0 = never; k = the k-th cb() call throws
  std::string cb_fail_kind;              // runtime_error | out_of_range | int | foreign | boxed | eval_error | logic_error | user
  mj::Value cb_shape;                    // stack shape snapshot taken at the throwing cb() call
  std::vector<std::string> trace;        // mark()/generic trace
};

struct Slot {
  std::unique_ptr<Harness> h;
  std::unique_ptr<chaiscript::ChaiScript_Basic> chai;
  bool optimize = true;
};

struct Foreign {};                                  // a C++ type unrelated to std::exception
struct UserErr : std::exception {                   // user exception type derived from std::exception
  const char *what() const noexcept override { return "user-err"; }
};

Slot &slot(long id);
long new_engine(const mj::Value &opts);
void del_engine(long id);

// canonical rendering of a script value, computed in C++ (never through script-level to_string)
std::string render(const Boxed_Value &bv, int depth = 0);
std::string type_tag(const Boxed_Value &bv);

// run f(); classify whatever leaves it.  Fills reply["res"] or reply["exc"].
void guarded(mj::Value &reply, const std::function<Boxed_Value()> &f);

// evaluates a script on a slot: captured stdout, result, exception, harness logs
mj::Value eval_on(Slot &s, const std::string &script, const std::string &fname, bool cache_off = false);

std::string take_stdout();  // flush + read + truncate the captured script output

mj::Value stack_shape(chaiscript::ChaiScript_Basic &chai);

using Command = std::function<mj::Value(const mj::Value &)>;
void register_command(const std::string &name, Command c);

struct Registrar {
  Registrar(const std::string &name, Command c) { register_command(name, std::move(c)); }
};

} // namespace vr
#endif
