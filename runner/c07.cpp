// C07 support: an engine with const sources of every kind whose underlying C++ objects the runner can read back directly.
#include "runner/core.hpp"
namespace vr {
namespace {
struct Cell {
  int v = 5;
  std::string s = "cell";
  void set(int x) { v = x; }
  int get() const { return v; }
  void append(const std::string &t) { s += t; }
  std::string str() const { return s; }
};
struct Sources {
  int i_ref = 41;                 // var(std::cref(i_ref))
  int i_ptr = 42;                 // var(const int *)
  std::string s_ref = "sref";
  double d_ref = 1.5;
  Cell c_ref, c_ptr, c_ret;
  std::shared_ptr<const Cell> c_sp = std::make_shared<const Cell>();
  std::shared_ptr<const int> i_sp = std::make_shared<const int>(43);
  std::vector<Boxed_Value> vec{Boxed_Value(1), Boxed_Value(2), Boxed_Value(3)};
  std::map<std::string, Boxed_Value> map{{"k", Boxed_Value(7)}};
  Boxed_Value cv_int = chaiscript::const_var(44);
  Boxed_Value cv_str = chaiscript::const_var(std::string("cvs"));
  Boxed_Value cv_dbl = chaiscript::const_var(2.5);
  Boxed_Value cv_vec, cv_map, cv_cell, gc_int, gc_str, gc_vec;
  long mutator_entries = 0;       // how often a harness function with a mutable parameter was entered
};
std::map<long, std::unique_ptr<Sources>> g_src;

std::string cell_repr(const Cell &c) { return "Cell(" + std::to_string(c.v) + "," + c.s + ")"; }

mj::Value snapshot(const Sources &S) {
  mj::Value v = mj::Value::object();
  v.set("i_ref", S.i_ref);
  v.set("i_ptr", S.i_ptr);
  v.set("s_ref", S.s_ref);
  v.set("d_ref", render(Boxed_Value(S.d_ref)));
  v.set("c_ref", cell_repr(S.c_ref));
  v.set("c_ptr", cell_repr(S.c_ptr));
  v.set("c_ret", cell_repr(S.c_ret));
  v.set("c_sp", cell_repr(*S.c_sp));
  v.set("i_sp", *S.i_sp);
  v.set("cv_int", render(S.cv_int));
  v.set("cv_str", render(S.cv_str));
  v.set("cv_dbl", render(S.cv_dbl));
  v.set("cv_vec", render(S.cv_vec));
  v.set("cv_map", render(S.cv_map));
  v.set("cv_cell", cell_repr(chaiscript::boxed_cast<const Cell &>(S.cv_cell)));
  v.set("gc_int", render(S.gc_int));
  v.set("gc_str", render(S.gc_str));
  v.set("gc_vec", render(S.gc_vec));
  v.set("mutator_entries", S.mutator_entries);
  return v;
}
}

static mj::Value cmd_c07(const mj::Value &rq) {
  mj::Value r = mj::Value::object();
  const std::string op = rq.at("op").str();
  if (op == "new") {
    mj::Value o = mj::Value::object();
    o.set("opt", true);
    const long id = new_engine(o);
    auto &chai = *slot(id).chai;
    auto S = std::make_unique<Sources>();
    Sources *s = S.get();
    using namespace chaiscript;
    chai.add(user_type<Cell>(), "Cell");
    chai.add(constructor<Cell()>(), "Cell");
    chai.add(constructor<Cell(const Cell &)>(), "Cell");
    chai.add(fun(&Cell::set), "set");
    chai.add(fun(&Cell::get), "get");
    chai.add(fun(&Cell::append), "append");
    chai.add(fun(&Cell::str), "str");
    chai.add(fun(&Cell::v), "v");
    chai.add(fun(&Cell::s), "s");
    chai.add(fun([](Cell &a, const Cell &b) -> Cell & { a = b; return a; }), "=");
    s->cv_vec = const_var(std::vector<Boxed_Value>{Boxed_Value(1), Boxed_Value(2)});
    s->cv_map = const_var(std::map<std::string, Boxed_Value>{{"k", Boxed_Value(7)}});
    s->cv_cell = const_var(Cell());
    s->gc_int = const_var(45);
    s->gc_str = const_var(std::string("gcs"));
    s->gc_vec = const_var(std::vector<Boxed_Value>{Boxed_Value(4), Boxed_Value(5)});
    chai.add(var(std::cref(s->i_ref)), "k_i_ref");
    chai.add(var(static_cast<const int *>(&s->i_ptr)), "k_i_ptr");
    chai.add(var(std::cref(s->s_ref)), "k_s_ref");
    chai.add(var(std::cref(s->d_ref)), "k_d_ref");
    chai.add(var(std::cref(s->c_ref)), "k_c_ref");
    chai.add(var(static_cast<const Cell *>(&s->c_ptr)), "k_c_ptr");
    chai.add(var(s->c_sp), "k_c_sp");
    chai.add(var(s->i_sp), "k_i_sp");
    chai.add(s->cv_int, "k_cv_int");
    chai.add(s->cv_str, "k_cv_str");
    chai.add(s->cv_dbl, "k_cv_dbl");
    chai.add(s->cv_vec, "k_cv_vec");
    chai.add(s->cv_map, "k_cv_map");
    chai.add(s->cv_cell, "k_cv_cell");
    chai.add_global_const(s->gc_int, "k_gc_int");
    chai.add_global_const(s->gc_str, "k_gc_str");
    chai.add_global_const(s->gc_vec, "k_gc_vec");
    chai.add(fun([s]() -> const Cell & { return s->c_ret; }), "ret_cell_cref");
    chai.add(fun([s]() -> const Cell * { return &s->c_ret; }), "ret_cell_cptr");
    chai.add(fun([s]() -> const int & { return s->i_ref; }), "ret_int_cref");
    chai.add(fun([s]() -> const std::string & { return s->s_ref; }), "ret_str_cref");
    chai.add(fun([]() -> const std::string { return "constret"; }), "ret_str_cval");
    // harness functions with mutable parameter forms
    chai.add(fun([s](int &x) { ++s->mutator_entries; x = 900; }), "mut_int_ref");
    chai.add(fun([s](int *x) { ++s->mutator_entries; *x = 901; }), "mut_int_ptr");
    chai.add(fun([s](std::shared_ptr<int> x) { ++s->mutator_entries; *x = 902; }), "mut_int_sp");
    chai.add(fun([s](double &x) { ++s->mutator_entries; x = 9.5; }), "mut_dbl_ref");
    chai.add(fun([s](std::string &x) { ++s->mutator_entries; x = "mutated"; }), "mut_str_ref");
    chai.add(fun([s](std::string *x) { ++s->mutator_entries; *x = "mutated"; }), "mut_str_ptr");
    chai.add(fun([s](Cell &x) { ++s->mutator_entries; x.v = 903; }), "mut_cell_ref");
    chai.add(fun([s](Cell *x) { ++s->mutator_entries; x->v = 904; }), "mut_cell_ptr");
    chai.add(fun([s](std::shared_ptr<Cell> x) { ++s->mutator_entries; x->v = 905; }), "mut_cell_sp");
    chai.add(fun([s](std::vector<Boxed_Value> &x) { ++s->mutator_entries; x.clear(); }), "mut_vec_ref");
    chai.add(fun([s](std::map<std::string, Boxed_Value> &x) { ++s->mutator_entries; x.clear(); }), "mut_map_ref");
    r.set("before", snapshot(*s));
    g_src[id] = std::move(S);
    r.set("id", id);
    return r;
  }
  const long id = rq.at("id").num();
  if (op == "snapshot") {
    r.set("now", snapshot(*g_src.at(id)));
    return r;
  }
  if (op == "del") {
    del_engine(id);     // the engine first: it holds references into the sources
    g_src.erase(id);
    return r;
  }
  throw std::runtime_error("c07: unknown op");
}
static Registrar r_c07("c07", cmd_c07);
}
