// C11 support: an instrumented class whose every construction, copy, move, destruction and use is recorded in a registry
// that outlives the objects.
#include "runner/core.hpp"
#include <set>
namespace vr {
namespace {
struct Registry {
  long constructed = 0, destroyed = 0, double_destroy = 0, touch_dead = 0;
  std::set<long> live;
  std::vector<std::string> events;     // violations, in order
  std::vector<long> checkpoints;       // live count at each chk()
  long next_id = 1;
};
Registry *g_reg = nullptr;             // registry of the engine currently being driven

struct TBase {
  virtual ~TBase() = default;
  virtual int kind() const { return 0; }
};
struct Tracked : TBase {
  long id;
  int payload;
  Registry *reg;
  explicit Tracked(int p) : id(g_reg->next_id++), payload(p), reg(g_reg) { born(); }
  Tracked(const Tracked &o) : TBase(o), id(g_reg->next_id++), payload(o.payload), reg(g_reg) { o.check("copy-from"); born(); }
  Tracked(Tracked &&o) noexcept : TBase(o), id(g_reg->next_id++), payload(o.payload), reg(g_reg) { o.check("move-from"); born(); }
  Tracked &operator=(const Tracked &o) { check("assign-to"); o.check("assign-from"); payload = o.payload; return *this; }
  ~Tracked() override {
    if (!reg->live.erase(id)) { ++reg->double_destroy; reg->events.push_back("object " + std::to_string(id) + " destroyed twice"); }
    ++reg->destroyed;
  }
  void born() { ++reg->constructed; reg->live.insert(id); }
  void check(const char *what) const {
    if (!reg->live.count(id)) { ++reg->touch_dead; reg->events.push_back(std::string(what) + " on destroyed object " + std::to_string(id)); }
  }
  int get() const { check("get"); return payload; }
  void set(int v) { check("set"); payload = v; }
  int touch() const { check("touch"); return 1; }
  int kind() const override { return 1; }
};
struct Holder {
  Tracked inner;
  explicit Holder(int p) : inner(p) {}
};
struct Held { std::vector<std::shared_ptr<Tracked>> kept; };
std::map<long, std::unique_ptr<Registry>> g_regs;
std::map<long, std::unique_ptr<Held>> g_held;

mj::Value report(const Registry &r) {
  mj::Value v = mj::Value::object();
  v.set("constructed", r.constructed);
  v.set("destroyed", r.destroyed);
  v.set("live", static_cast<long>(r.live.size()));
  v.set("double_destroy", r.double_destroy);
  v.set("touch_dead", r.touch_dead);
  mj::Value ev = mj::Value::array();
  for (const auto &e : r.events) ev.push(e);
  v.set("events", std::move(ev));
  mj::Value cp = mj::Value::array();
  for (long c : r.checkpoints) cp.push(c);
  v.set("checkpoints", std::move(cp));
  return v;
}
}

static mj::Value cmd_c11(const mj::Value &rq) {
  mj::Value r = mj::Value::object();
  const std::string op = rq.at("op").str();
  if (op == "new") {
    mj::Value o = mj::Value::object();
    o.set("opt", rq.at("opt").boolean(true));
    const long id = new_engine(o);
    auto &chai = *slot(id).chai;
    g_regs[id] = std::make_unique<Registry>();
    g_held[id] = std::make_unique<Held>();
    Registry *reg = g_regs[id].get();
    Held *held = g_held[id].get();
    g_reg = reg;
    using namespace chaiscript;
    chai.add(user_type<TBase>(), "TBase");
    chai.add(user_type<Tracked>(), "Tracked");
    chai.add(base_class<TBase, Tracked>());
    chai.add(constructor<Tracked(int)>(), "Tracked");
    chai.add(constructor<Tracked(const Tracked &)>(), "Tracked");
    chai.add(fun(&Tracked::operator=), "=");
    chai.add(fun(&Tracked::get), "get");
    chai.add(fun(&Tracked::set), "set");
    chai.add(fun(&Tracked::touch), "touch");
    chai.add(fun(&TBase::kind), "kind");
    chai.add(type_conversion<int, Tracked>([](int v) { return Tracked(v + 5000); }));
    // references into an object: the temporary they come from must outlive their use within the statement
    chai.add(user_type<Holder>(), "Holder");
    chai.add(constructor<Holder(int)>(), "Holder");
    chai.add(constructor<Holder(const Holder &)>(), "Holder");
    chai.add(fun(&Holder::inner), "inner");
    chai.add(fun([](int p) { return Holder(p); }), "make_holder");
    chai.add(fun([](Tracked &t) -> Tracked & { t.touch(); return t; }), "self");
    chai.add(fun([](Tracked &t) -> Tracked & { t.touch(); return t; }), "pass_ref");
    chai.add(fun([](const Tracked &t) -> const Tracked & { t.touch(); return t; }), "pass_cref");
    chai.add(fun([](Tracked t) { return t.get(); }), "by_value");
    chai.add(fun([](Tracked &t) { return t.get(); }), "by_ref");
    chai.add(fun([](const Tracked &t) { return t.get(); }), "by_cref");
    chai.add(fun([](Tracked *t) { return t->get(); }), "by_ptr");
    chai.add(fun([](const Tracked *t) { return t->get(); }), "by_cptr");
    chai.add(fun([](std::shared_ptr<Tracked> t) { return t->get(); }), "by_sp");
    chai.add(fun([](const std::shared_ptr<const Tracked> &t) { return t->get(); }), "by_csp");
    chai.add(fun([](const TBase &b) { return b.kind(); }), "by_base");
    chai.add(fun([](int p) { return std::make_shared<Tracked>(p); }), "make_sp");
    chai.add(fun([](int p) { return Tracked(p); }), "make_val");
    chai.add(fun([](int p) { return std::make_unique<Tracked>(p); }), "make_unique");
    chai.add(fun([](std::shared_ptr<Tracked> &t, int p) { t = std::make_shared<Tracked>(p); return t->get(); }), "reseat");
    chai.add(fun([](const Tracked &t) -> int { t.touch(); throw std::runtime_error("thrower"); }), "by_cref_throw");
    chai.add(fun([](Tracked t) -> int { t.touch(); throw std::runtime_error("thrower"); }), "by_value_throw");
    chai.add(fun([held](const std::shared_ptr<Tracked> &t) { held->kept.push_back(t); return static_cast<int>(held->kept.size()); }), "keep");
    chai.add(fun([reg]() { reg->checkpoints.push_back(static_cast<long>(reg->live.size())); return static_cast<int>(reg->live.size()); }), "chk");
    r.set("id", id);
    return r;
  }
  const long id = rq.at("id").num();
  g_reg = g_regs.at(id).get();
  if (op == "eval") {
    Slot &s = slot(id);
    r = eval_on(s, rq.at("script").str(), "__EVAL__");
    r.set("registry", report(*g_reg));
    return r;
  }
  if (op == "finish") {
    // drop the script's top-level variables, then the engine, then what the harness kept
    Slot &s = slot(id);
    mj::Value stages = mj::Value::object();
    s.chai->set_locals({});
    stages.set("after_set_locals", report(*g_reg));
    stages.set("held", static_cast<long>(g_held.at(id)->kept.size()));
    std::set<long> held_ids;
    for (const auto &k : g_held.at(id)->kept) { k->touch(); held_ids.insert(k->id); }
    del_engine(id);
    stages.set("after_engine_destroyed", report(*g_reg));
    bool only_held = g_reg->live == held_ids;
    stages.set("live_equals_held", only_held);
    for (const auto &k : g_held.at(id)->kept) k->touch();
    g_held.erase(id);
    stages.set("after_release", report(*g_reg));
    g_regs.erase(id);
    g_reg = nullptr;
    return stages;
  }
  throw std::runtime_error("c11: unknown op");
}
static Registrar r_c11("c11", cmd_c11);
}
