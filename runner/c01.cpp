// C01 support inside the runner: the same parse oracle the libFuzzer target uses, for grammar-generated programs with structured mutations.
#include "runner/core.hpp"
#include "common/parse_oracle.hpp"
namespace vr {
static mj::Value cmd_parse_oracle(const mj::Value &rq) {
  static verif::ParseOracle oracle;
  mj::Value r = mj::Value::object();
  const std::string v = oracle.check(rq.at("input").str());
  r.set("violation", v);
  r.set("nontrivial", oracle.last_nontrivial);
  r.set("outcome", oracle.last_outcome == verif::Outcome::File ? "file" : oracle.last_outcome == verif::Outcome::Noop ? "noop" : "rejected");
  r.set("error", oracle.last_error);
  return r;
}
static Registrar r_po("parse_oracle", cmd_parse_oracle);
}
