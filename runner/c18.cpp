// C18 (a): build a JSON-able value tree in C++, run to_json / from_json through the engine, compare structurally.
#include "runner/core.hpp"
#include "common/json_equiv.hpp"
namespace vr {
static Boxed_Value build(const mj::Value &t) {
  const std::string k = t.at("t").str();
  if (k == "null") return Boxed_Value();
  if (k == "bool") return Boxed_Value(t.at("v").boolean());
  if (k == "int") return Boxed_Value(static_cast<std::int64_t>(std::strtoll(t.at("v").str().c_str(), nullptr, 10)));
  if (k == "str") return Boxed_Value(t.at("v").str());
  if (k == "vec") {
    std::vector<Boxed_Value> v;
    for (const auto &e : t.at("v").a) v.push_back(build(e));
    return Boxed_Value(std::move(v));
  }
  if (k == "map") {
    std::map<std::string, Boxed_Value> m;
    for (const auto &e : t.at("v").a) m[e.at("k").str()] = build(e.at("e"));
    return Boxed_Value(std::move(m));
  }
  throw std::runtime_error("c18: bad tree kind " + k);
}
static mj::Value cmd_c18(const mj::Value &rq) {
  Slot &s = slot(rq.at("id").num());
  mj::Value r = mj::Value::object();
  if (rq.has("poison")) {
    // a rejected text parsed first on the same engine and thread: nothing of it may leak into the next conversion
    s.chai->set_global(chaiscript::var(rq.at("poison").str()), "c18_poison");
    mj::Value ignored = mj::Value::object();
    guarded(ignored, [&]() { return s.chai->eval("from_json(c18_poison)"); });
    r.set("poison_rejected", ignored.has("exc"));
  }
  const Boxed_Value v = build(rq.at("tree"));
  s.chai->set_global(v, "c18_val");
  r.set("orig", render(v));
  mj::Value e1 = mj::Value::object();
  std::string text;
  guarded(e1, [&]() { Boxed_Value j = s.chai->eval("to_json(c18_val)"); text = chaiscript::boxed_cast<std::string>(j); return j; });
  if (e1.has("exc")) { r.set("stage", "to_json"); r.set("exc", e1.at("exc")); return r; }
  r.set("json", text);
  s.chai->set_global(chaiscript::var(text), "c18_txt");
  mj::Value e2 = mj::Value::object();
  Boxed_Value back;
  guarded(e2, [&]() { back = s.chai->eval("from_json(c18_txt)"); return back; });
  if (e2.has("exc")) { r.set("stage", "from_json"); r.set("exc", e2.at("exc")); return r; }
  r.set("back", render(back));
  bool nonfinite = false;
  r.set("equal", verif::json_equiv(v, back, nonfinite));
  if (rq.has("poison")) {
    // a successful parse of a string, so that whatever a defective parser kept from the rejected text cannot reach the *next* case
    mj::Value ignored = mj::Value::object();
    guarded(ignored, [&]() { return s.chai->eval("from_json(\"\\\"flush\\\"\")"); });
  }
  return r;
}
static Registrar r_c18("c18", cmd_c18);
}
