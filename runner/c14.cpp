// C14 support: several engines in reusable slots (two static buffers used with placement new, plus heap), driven from the
// main thread and from long-lived worker threads that outlive every engine of a case.
#include "runner/core.hpp"
#include <condition_variable>
#include <mutex>
#include <new>
#include <thread>
namespace vr {
namespace {
constexpr int NWORKERS = 4;  // the "main" thread of a history is a worker as well: no thread-local state may survive from one case to the next
constexpr int NSLOTS = 4;    // 0,1: static buffers (address reuse); 2,3: heap

struct Worker {
  std::thread th;
  std::mutex mu;
  std::condition_variable cv;
  std::function<void()> job;
  bool has_job = false, done = false, quit = false;
};
std::unique_ptr<Worker> g_workers[NWORKERS];

void worker_loop(Worker *w) {
  for (;;) {
    std::unique_lock<std::mutex> l(w->mu);
    w->cv.wait(l, [&] { return w->has_job || w->quit; });
    if (w->quit) return;
    auto job = std::move(w->job);
    l.unlock();
    job();
    l.lock();
    w->has_job = false;
    w->done = true;
    w->cv.notify_all();
  }
}

// the threads of one history live from its first use until the next "reset", i.e. they outlive every engine of the history
void run_on(int thread, const std::function<void()> &f) {
  auto &slot = g_workers[((thread % NWORKERS) + NWORKERS) % NWORKERS];
  if (!slot) {
    slot = std::make_unique<Worker>();
    slot->th = std::thread(worker_loop, slot.get());
  }
  Worker &w = *slot;
  std::unique_lock<std::mutex> l(w.mu);
  w.job = f;
  w.has_job = true;
  w.done = false;
  w.cv.notify_all();
  w.cv.wait(l, [&] { return w.done; });
}

void end_threads() {
  for (auto &w : g_workers) {
    if (!w) continue;
    { std::unique_lock<std::mutex> l(w->mu); w->quit = true; w->cv.notify_all(); }
    w->th.join();
    w.reset();
  }
}

// three unrelated C++ types known to every engine; conversions between them are added per engine instance ("conv" op)
struct CA { int v; };
struct CB { int v; };
struct CC { int v; };
void equip(chaiscript::ChaiScript_Basic &e) {
  e.add(chaiscript::user_type<CA>(), "CA");
  e.add(chaiscript::user_type<CB>(), "CB");
  e.add(chaiscript::user_type<CC>(), "CC");
  e.add(chaiscript::fun([](int v) { return CA{v}; }), "make_ca");
  e.add(chaiscript::fun([](int v) { return CB{v}; }), "make_cb");
  e.add(chaiscript::fun([](const CB &b) { return b.v; }), "take_cb");
  e.add(chaiscript::fun([](const CC &c) { return c.v; }), "take_cc");
}

alignas(64) unsigned char g_buf[2][sizeof(chaiscript::ChaiScript_Basic)];
chaiscript::ChaiScript_Basic *g_engine[NSLOTS] = {nullptr, nullptr, nullptr, nullptr};

void destroy(int slot) {
  if (!g_engine[slot]) return;
  if (slot < 2) g_engine[slot]->~ChaiScript_Basic(); else delete g_engine[slot];
  g_engine[slot] = nullptr;
}
}

static mj::Value cmd_c14(const mj::Value &rq) {
  mj::Value r = mj::Value::object();
  const std::string op = rq.at("op").str();
  const int slot = static_cast<int>(rq.at("slot").num()) % NSLOTS;
  const int thread = static_cast<int>(rq.at("thread").num());
  if (op == "create") {
    run_on(thread, [&] {
      destroy(slot);
      if (slot < 2) g_engine[slot] = new (g_buf[slot]) chaiscript::ChaiScript_Basic(verif_stdlib(), verif_parser(true));
      else g_engine[slot] = new chaiscript::ChaiScript_Basic(verif_stdlib(), verif_parser(true));
      equip(*g_engine[slot]);
    });
    r.set("address", static_cast<long>(reinterpret_cast<std::uintptr_t>(g_engine[slot]) & 0xffffff));
    return r;
  }
  if (op == "destroy") {
    run_on(thread, [&] { destroy(slot); });
    return r;
  }
  if (op == "reset") {
    // engines first (on the requesting thread), then the threads: the next history starts with fresh threads
    for (int s = 0; s < NSLOTS; ++s) destroy(s);
    end_threads();
    return r;
  }
  if (op == "eval") {
    if (!g_engine[slot]) throw std::runtime_error("c14: no engine in slot");
    const std::string script = rq.at("script").str();
    run_on(thread, [&] {
      guarded(r, [&]() { return g_engine[slot]->eval(script); });
      mj::Value names = mj::Value::array();
      for (const auto &kv : g_engine[slot]->get_locals()) names.push(kv.first);
      r.set("locals", std::move(names));
    });
    r.set("out", take_stdout());
    return r;
  }
  if (op == "conv") {
    // kind a2b / a2c / b2c: a user conversion private to this engine instance; k makes its result recognisable
    if (!g_engine[slot]) throw std::runtime_error("c14: no engine in slot");
    const std::string kind = rq.at("kind").str();
    const int k = static_cast<int>(rq.at("k").num());
    run_on(thread, [&] {
      guarded(r, [&]() {
        if (kind == "a2b") g_engine[slot]->add(chaiscript::type_conversion<CA, CB>([k](const CA &a) { return CB{a.v + k}; }));
        else if (kind == "a2c") g_engine[slot]->add(chaiscript::type_conversion<CA, CC>([k](const CA &a) { return CC{a.v + k}; }));
        else g_engine[slot]->add(chaiscript::type_conversion<CB, CC>([k](const CB &b) { return CC{b.v + k}; }));
        return chaiscript::Boxed_Value(0);
      });
    });
    return r;
  }
  throw std::runtime_error("c14: unknown op " + op);
}
static Registrar r_c14("c14", cmd_c14);
}
