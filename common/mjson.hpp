// Minimal JSON value for the runner protocol (independent of chaiscript/utility/json.hpp, which is under test).
// Strings are byte strings: \u00XX <-> byte XX (latin-1 convention on both sides of the pipe).
#ifndef VERIF_MJSON_HPP
#define VERIF_MJSON_HPP
#include <cstdint>
#include <cstdio>
#include <cstdlib>
#include <map>
#include <stdexcept>
#include <string>
#include <utility>
#include <vector>

namespace mj {
struct Value;
using Array = std::vector<Value>;
using Object = std::vector<std::pair<std::string, Value>>;

struct Value {
  enum Kind { Null, Bool, Int, Dbl, Str, Arr, Obj } kind = Null;
  bool b = false;
  long long i = 0;
  double d = 0;
  std::string s;
  Array a;
  Object o;

  Value() = default;
  Value(bool v) : kind(Bool), b(v) {}
  Value(int v) : kind(Int), i(v) {}
  Value(long v) : kind(Int), i(v) {}
  Value(long long v) : kind(Int), i(v) {}
  Value(unsigned v) : kind(Int), i(v) {}
  Value(unsigned long v) : kind(Int), i(static_cast<long long>(v)) {}
  Value(double v) : kind(Dbl), d(v) {}
  Value(const char *v) : kind(Str), s(v) {}
  Value(std::string v) : kind(Str), s(std::move(v)) {}
  static Value array() { Value v; v.kind = Arr; return v; }
  static Value object() { Value v; v.kind = Obj; return v; }

  bool has(const std::string &k) const {
    for (const auto &kv : o) if (kv.first == k) return true;
    return false;
  }
  const Value &at(const std::string &k) const {
    for (const auto &kv : o) if (kv.first == k) return kv.second;
    static const Value null_value;
    return null_value;
  }
  Value &set(const std::string &k, Value v) {
    kind = Obj;
    for (auto &kv : o) if (kv.first == k) { kv.second = std::move(v); return kv.second; }
    o.emplace_back(k, std::move(v));
    return o.back().second;
  }
  Value &push(Value v) { kind = Arr; a.push_back(std::move(v)); return a.back(); }
  std::string str(const std::string &dflt = "") const { return kind == Str ? s : dflt; }
  long long num(long long dflt = 0) const { return kind == Int ? i : kind == Dbl ? static_cast<long long>(d) : kind == Bool ? b : dflt; }
  bool boolean(bool dflt = false) const { return kind == Bool ? b : kind == Int ? i != 0 : dflt; }
  bool is_null() const { return kind == Null; }
};

inline void esc(std::string &out, const std::string &s) {
  out += '"';
  char buf[8];
  for (unsigned char c : s) {
    if (c == '"' || c == '\\') { out += '\\'; out += static_cast<char>(c); }
    else if (c < 0x20 || c >= 0x7f) { std::snprintf(buf, sizeof buf, "\\u%04x", c); out += buf; }
    else out += static_cast<char>(c);
  }
  out += '"';
}

inline void dump(std::string &out, const Value &v) {
  char buf[40];
  switch (v.kind) {
    case Value::Null: out += "null"; break;
    case Value::Bool: out += v.b ? "true" : "false"; break;
    case Value::Int: std::snprintf(buf, sizeof buf, "%lld", v.i); out += buf; break;
    case Value::Dbl: std::snprintf(buf, sizeof buf, "%.17g", v.d); out += buf; break;
    case Value::Str: esc(out, v.s); break;
    case Value::Arr:
      out += '[';
      for (size_t k = 0; k < v.a.size(); ++k) { if (k) out += ','; dump(out, v.a[k]); }
      out += ']';
      break;
    case Value::Obj:
      out += '{';
      for (size_t k = 0; k < v.o.size(); ++k) { if (k) out += ','; esc(out, v.o[k].first); out += ':'; dump(out, v.o[k].second); }
      out += '}';
      break;
  }
}
inline std::string dump(const Value &v) { std::string s; dump(s, v); return s; }

struct Parser {
  const std::string &t;
  size_t p = 0;
  explicit Parser(const std::string &text) : t(text) {}
  [[noreturn]] void fail(const char *m) { throw std::runtime_error(std::string("mjson: ") + m + " at " + std::to_string(p)); }
  void ws() { while (p < t.size() && (t[p] == ' ' || t[p] == '\n' || t[p] == '\t' || t[p] == '\r')) ++p; }
  Value parse() { ws(); Value v = value(); ws(); return v; }
  Value value() {
    if (p >= t.size()) fail("eof");
    const char c = t[p];
    if (c == '{') {
      Value v = Value::object(); ++p; ws();
      if (t[p] == '}') { ++p; return v; }
      for (;;) {
        ws(); std::string k = string(); ws();
        if (t[p] != ':') fail("colon"); ++p; ws();
        v.o.emplace_back(std::move(k), value()); ws();
        if (t[p] == ',') { ++p; continue; }
        if (t[p] == '}') { ++p; return v; }
        fail("object");
      }
    }
    if (c == '[') {
      Value v = Value::array(); ++p; ws();
      if (t[p] == ']') { ++p; return v; }
      for (;;) {
        ws(); v.a.push_back(value()); ws();
        if (t[p] == ',') { ++p; continue; }
        if (t[p] == ']') { ++p; return v; }
        fail("array");
      }
    }
    if (c == '"') return Value(string());
    if (t.compare(p, 4, "true") == 0) { p += 4; return Value(true); }
    if (t.compare(p, 5, "false") == 0) { p += 5; return Value(false); }
    if (t.compare(p, 4, "null") == 0) { p += 4; return Value(); }
    size_t e = p;
    bool isd = false;
    while (e < t.size() && (std::isdigit(static_cast<unsigned char>(t[e])) || t[e] == '-' || t[e] == '+' || t[e] == '.' || t[e] == 'e' || t[e] == 'E')) {
      if (t[e] == '.' || t[e] == 'e' || t[e] == 'E') isd = true;
      ++e;
    }
    if (e == p) fail("value");
    const std::string n = t.substr(p, e - p);
    p = e;
    if (isd) return Value(std::strtod(n.c_str(), nullptr));
    return Value(static_cast<long long>(std::strtoll(n.c_str(), nullptr, 10)));
  }
  std::string string() {
    if (t[p] != '"') fail("string");
    ++p;
    std::string out;
    while (p < t.size() && t[p] != '"') {
      if (t[p] == '\\') {
        ++p;
        const char c = t[p++];
        switch (c) {
          case 'n': out += '\n'; break;
          case 't': out += '\t'; break;
          case 'r': out += '\r'; break;
          case 'b': out += '\b'; break;
          case 'f': out += '\f'; break;
          case 'u': {
            const unsigned v = static_cast<unsigned>(std::strtoul(t.substr(p, 4).c_str(), nullptr, 16));
            p += 4;
            if (v > 0xff) fail("non-latin1 \\u escape");
            out += static_cast<char>(v);
            break;
          }
          default: out += c;
        }
      } else {
        out += t[p++];
      }
    }
    ++p;
    return out;
  }
};
inline Value parse(const std::string &text) { return Parser(text).parse(); }
} // namespace mj
#endif
