// Helpers shared by the libFuzzer targets: counters/samples dumped to $VERIF_STATS, violation text to $VERIF_VIOLATION.
#ifndef VERIF_FUZZ_SUPPORT_HPP
#define VERIF_FUZZ_SUPPORT_HPP
#include <cstdio>
#include <cstdlib>
#include <sstream>
#include <string>
#include <unordered_set>
#include <vector>
namespace verif {
inline std::string jstr(const std::string &s) {
  std::string o = "\"";
  char buf[8];
  for (unsigned char c : s) {
    if (c == '"' || c == '\\') { o += '\\'; o += static_cast<char>(c); }
    else if (c < 0x20 || c >= 0x7f) { std::snprintf(buf, sizeof buf, "\\u%04x", c); o += buf; }
    else o += static_cast<char>(c);
  }
  return o + "\"";
}
inline unsigned long long fnv64(const std::string &s) {
  unsigned long long h = 1469598103934665603ULL;
  for (unsigned char c : s) { h ^= c; h *= 1099511628211ULL; }
  return h;
}
class FuzzReport {
  std::string m_prop;
  std::unordered_set<unsigned long long> m_seen;
  std::vector<std::string> m_samples;
public:
  explicit FuzzReport(std::string p) : m_prop(std::move(p)) {}
  void note_nontrivial(const std::string &in) {
    if (m_seen.size() < 4000000 && m_seen.insert(fnv64(in)).second) {
      // keep a spread of samples: the 1st, 10th, 100th, ... distinct case and short ones
      const auto n = m_seen.size();
      if (m_samples.size() < 12 && in.size() <= 200 && (n == 1 || n == 10 || n == 100 || n == 1000 || n == 10000 || n % 50000 == 0)) m_samples.push_back(in);
    }
  }
  size_t distinct() const { return m_seen.size(); }
  std::string samples_json() const {
    std::string o = "[";
    for (size_t i = 0; i < m_samples.size(); ++i) { o += (i ? "," : "") + jstr(m_samples[i]); }
    return o + "]";
  }
  void write_stats(const std::string &json) const {
    if (const char *p = std::getenv("VERIF_STATS")) {
      if (FILE *f = std::fopen(p, "w")) { std::fputs(json.c_str(), f); std::fclose(f); }
    }
  }
  void violation(const std::string &input, const std::string &what) const {
    std::fprintf(stderr, "\nVERIF-ORACLE property=%s: %s\n", m_prop.c_str(), what.c_str());
    if (const char *p = std::getenv("VERIF_VIOLATION")) {
      if (FILE *f = std::fopen(p, "w")) {
        std::fprintf(f, "{\"property\":\"%s\",\"what\":%s,\"input\":%s}\n", m_prop.c_str(), jstr(what).c_str(), jstr(input).c_str());
        std::fclose(f);
      }
    }
  }
};
}
#endif
