// Full syntax-tree walk: get_children() omits the bodies/guards that Def, Method and Lambda nodes keep in members.
#ifndef VERIF_AST_WALK_HPP
#define VERIF_AST_WALK_HPP
#include <chaiscript/chaiscript_basic.hpp>
#include <chaiscript/language/chaiscript_tracer.hpp>
namespace verif {
using Tracer = chaiscript::eval::Noop_Tracer;
template<typename F>
void for_each_child(const chaiscript::AST_Node &n, F &&f) {
  namespace ev = chaiscript::eval;
  for (const auto &c : n.get_children()) { f(c.get()); }
  if (n.identifier == chaiscript::AST_Node_Type::Def) {
    if (auto *d = dynamic_cast<const ev::Def_AST_Node<Tracer> *>(&n)) {
      if (d->m_guard_node) f(*d->m_guard_node);
      if (d->m_body_node) f(*d->m_body_node);
    }
  } else if (n.identifier == chaiscript::AST_Node_Type::Method) {
    if (auto *d = dynamic_cast<const ev::Method_AST_Node<Tracer> *>(&n)) {
      if (d->m_guard_node) f(*d->m_guard_node);
      if (d->m_body_node) f(*d->m_body_node);
    }
  } else if (n.identifier == chaiscript::AST_Node_Type::Lambda) {
    using Lambda_Node = ev::Lambda_AST_Node<Tracer>;
    const Lambda_Node *d = dynamic_cast<const Lambda_Node *>(&n);
    if (d != nullptr) {
      f(d->verif_lambda_body());
    }
  }
}
template<typename F>
void walk(const chaiscript::AST_Node &n, F &&f, int depth = 0) {
  f(n, depth);
  for_each_child(n, [&](const chaiscript::AST_Node &c) { walk(c, f, depth + 1); });
}
}
#endif
