// Structural equivalence of JSON-able script values, computed in C++ (script-level == calls undefined values unequal).
#ifndef VERIF_JSON_EQUIV_HPP
#define VERIF_JSON_EQUIV_HPP
#include <chaiscript/chaiscript_basic.hpp>
#include <cmath>
#include <map>
#include <string>
#include <vector>
namespace verif {
using chaiscript::Boxed_Value;
template<typename T> inline bool jis(const Boxed_Value &b) { return b.get_type_info().bare_equal_type_info(typeid(T)); }

// has_nonfinite is set when a floating value is inf/NaN (JSON cannot spell those: outside the domain)
inline bool json_equiv(const Boxed_Value &a, const Boxed_Value &b, bool &has_nonfinite, int depth = 0) {
  using chaiscript::boxed_cast;
  if (a.is_undef() || b.is_undef()) return a.is_undef() && b.is_undef();
  if (jis<bool>(a) || jis<bool>(b)) return jis<bool>(a) && jis<bool>(b) && boxed_cast<bool>(a) == boxed_cast<bool>(b);
  if (jis<std::string>(a) || jis<std::string>(b)) {
    return jis<std::string>(a) && jis<std::string>(b) && boxed_cast<const std::string &>(a) == boxed_cast<const std::string &>(b);
  }
  if (jis<double>(a) || jis<double>(b)) {
    if (!(jis<double>(a) && jis<double>(b))) return false;
    const double x = boxed_cast<double>(a), y = boxed_cast<double>(b);
    if (!std::isfinite(x) || !std::isfinite(y)) { has_nonfinite = true; return true; }
    const double d = std::fabs(x - y);
    return d <= 1e-6 || d <= 1e-6 * std::fabs(x);
  }
  if (jis<std::int64_t>(a) || jis<std::int64_t>(b)) {
    return jis<std::int64_t>(a) && jis<std::int64_t>(b) && boxed_cast<std::int64_t>(a) == boxed_cast<std::int64_t>(b);
  }
  if (jis<std::vector<Boxed_Value>>(a)) {
    if (!jis<std::vector<Boxed_Value>>(b)) return false;
    const auto &x = boxed_cast<const std::vector<Boxed_Value> &>(a);
    const auto &y = boxed_cast<const std::vector<Boxed_Value> &>(b);
    if (x.size() != y.size()) return false;
    for (size_t i = 0; i < x.size(); ++i) { if (!json_equiv(x[i], y[i], has_nonfinite, depth + 1)) return false; }
    return true;
  }
  if (jis<std::map<std::string, Boxed_Value>>(a)) {
    if (!jis<std::map<std::string, Boxed_Value>>(b)) return false;
    const auto &x = boxed_cast<const std::map<std::string, Boxed_Value> &>(a);
    const auto &y = boxed_cast<const std::map<std::string, Boxed_Value> &>(b);
    if (x.size() != y.size()) return false;
    auto i = x.begin();
    auto j = y.begin();
    for (; i != x.end(); ++i, ++j) {
      if (i->first != j->first || !json_equiv(i->second, j->second, has_nonfinite, depth + 1)) return false;
    }
    return true;
  }
  return false;
}
}
#endif
