// C01 oracle: parse(input) on both parser pipelines; returns "" or a violation description.
// Everything here is independent of the parser's own lexer: the trivia scanner and the token
// lexer below are written from the language documentation, not from chaiscript_parser.hpp.
#ifndef VERIF_PARSE_ORACLE_HPP
#define VERIF_PARSE_ORACLE_HPP

#include "common/ast_walk.hpp"
#include "lib/verif_lib.hpp"

#include <map>
#include <set>
#include <string>
#include <vector>

namespace verif {

struct ParseStats {
  long execs = 0, accepted_file = 0, accepted_noop = 0, rejected = 0, nontrivial = 0;
  long lexer_checked = 0, junk_checked = 0, illegal_checked = 0, with_string = 0, with_escape = 0;
  long known_excluded = 0;
  std::map<std::string, long> reject_msgs;
  long depth_buckets[5] = {0, 0, 0, 0, 0}; // max bracket depth 0, 1-3, 4-9, 10-29, >=30
};

enum class Outcome { File, Noop, Rejected };

struct ParseResult {
  Outcome outcome = Outcome::Rejected;
  std::string error;       // eval_error reason when rejected
  std::string violation;   // non-empty => wrong exception type
  chaiscript::AST_NodePtr tree;
};

inline ParseResult parse_with(chaiscript::parser::ChaiScript_Parser_Base &p, const std::string &input) {
  ParseResult r;
  try {
    r.tree = p.parse(input, "fz");
    r.outcome = (r.tree->identifier == chaiscript::AST_Node_Type::Noop) ? Outcome::Noop : Outcome::File;
  } catch (const chaiscript::exception::eval_error &e) {
    r.outcome = Outcome::Rejected;
    r.error = e.reason;
  } catch (const std::exception &e) {
    r.violation = std::string("parse threw ") + typeid(e).name() + ": " + e.what();
  } catch (...) {
    r.violation = "parse threw a non-std exception";
  }
  return r;
}

// ---- independent trivia scanner -------------------------------------------------------------
// true when the whole text is blanks, line ends, ';' separators and comments
inline bool all_trivia(const std::string &s) {
  size_t i = 0, n = s.size();
  if (n >= 2 && s[0] == '#' && s[1] == '!') {
    while (i < n && s[i] != '\n') ++i;
  }
  while (i < n) {
    const char c = s[i];
    if (c == ' ' || c == '\t' || c == '\n' || c == ';') { ++i; continue; }
    if (c == '\r' && i + 1 < n && s[i + 1] == '\n') { i += 2; continue; }
    if (c == '/' && i + 1 < n && s[i + 1] == '/') { while (i < n && s[i] != '\n') ++i; continue; }
    if (c == '#') { while (i < n && s[i] != '\n') ++i; continue; }
    if (c == '/' && i + 1 < n && s[i + 1] == '*') {
      size_t e = s.find("*/", i + 2);
      if (e == std::string::npos) return true; // unterminated block comment runs to the end
      i = e + 2;
      continue;
    }
    return false;
  }
  return true;
}

// ---- independent token lexer for quote-free text ---------------------------------------------
struct Lexed {
  bool ok = true; // false: text is outside the lexer's domain
  std::vector<std::string> idents, numbers;
};

inline bool is_ident_start(unsigned char c) { return std::isalpha(c) || c == '_'; }
inline bool is_ident_char(unsigned char c) { return std::isalnum(c) || c == '_'; }


// length of the longest prefix of s[i..] that is a complete numeric literal of the documented (C++-like) forms:
//   0x<hex>+ sfx*, 0b<bin>+ sfx*, <dec> sfx*, 0<oct>* sfx*, <digits>.<digits>+ exp? fsfx*, <digits>+ exp fsfx*, .<digits>+ exp? fsfx*
inline size_t valid_literal_prefix(const std::string &s, size_t i) {
  const size_t n = s.size();
  auto isd = [&](size_t k) { return k < n && std::isdigit(static_cast<unsigned char>(s[k])); };
  auto int_sfx = [&](size_t k) { while (k < n && (s[k] == 'u' || s[k] == 'U' || s[k] == 'l' || s[k] == 'L')) ++k; return k; };
  auto flt_sfx = [&](size_t k) { while (k < n && (s[k] == 'f' || s[k] == 'F' || s[k] == 'l' || s[k] == 'L')) ++k; return k; };
  auto exponent = [&](size_t k) -> size_t { // returns end of a well-formed exponent starting at k, or k when there is none
    if (k < n && (s[k] == 'e' || s[k] == 'E')) {
      size_t m = k + 1;
      if (m < n && (s[m] == '+' || s[m] == '-')) ++m;
      if (isd(m)) { while (isd(m)) ++m; return m; }
    }
    return k;
  };
  size_t j = i;
  if (s[j] == '0' && j + 1 < n && (s[j + 1] == 'x' || s[j + 1] == 'X') && j + 2 < n && std::isxdigit(static_cast<unsigned char>(s[j + 2]))) {
    j += 2;
    while (j < n && std::isxdigit(static_cast<unsigned char>(s[j]))) ++j;
    return int_sfx(j) - i;
  }
  if (s[j] == '0' && j + 1 < n && (s[j + 1] == 'b' || s[j + 1] == 'B') && j + 2 < n && (s[j + 2] == '0' || s[j + 2] == '1')) {
    j += 2;
    while (j < n && (s[j] == '0' || s[j] == '1')) ++j;
    return int_sfx(j) - i;
  }
  size_t d = j;
  while (isd(d)) ++d;
  // float forms
  if (d < n && s[d] == '.' && isd(d + 1)) {
    size_t f = d + 1;
    while (isd(f)) ++f;
    return flt_sfx(exponent(f)) - i;
  }
  if (d > j) {
    const size_t e = exponent(d);
    if (e > d) return flt_sfx(e) - i;
    // integer: octal when it has a leading 0
    if (s[j] == '0') {
      size_t o = j;
      while (o < n && s[o] >= '0' && s[o] <= '7') ++o;
      return int_sfx(o < d ? o : d) - i; // a non-octal digit ends the literal
    }
    return int_sfx(d) - i;
  }
  return 1;
}

inline Lexed lex_quote_free(const std::string &s) {
  Lexed L;
  size_t i = 0, n = s.size();
  if (n >= 2 && s[0] == '#' && s[1] == '!') {
    while (i < n && s[i] != '\n') ++i;
  }
  while (i < n) {
    const unsigned char c = static_cast<unsigned char>(s[i]);
    if (c == '"' || c == '\'' || c == '`' || c == '\\' || c == '$') { L.ok = false; return L; }
    if (c == '/' && i + 1 < n && s[i + 1] == '/') { while (i < n && s[i] != '\n') ++i; continue; }
    if (c == '#') { while (i < n && s[i] != '\n') ++i; continue; }
    if (c == '/' && i + 1 < n && s[i + 1] == '*') {
      size_t e = s.find("*/", i + 2);
      if (e == std::string::npos) { i = n; } else { i = e + 2; }
      continue;
    }
    if (is_ident_start(c)) {
      size_t j = i;
      while (j < n && is_ident_char(static_cast<unsigned char>(s[j]))) ++j;
      L.idents.push_back(s.substr(i, j - i));
      i = j;
      continue;
    }
    const bool dot_number = (c == '.' && i + 1 < n && std::isdigit(static_cast<unsigned char>(s[i + 1]))
                             && (i == 0 || (!is_ident_char(static_cast<unsigned char>(s[i - 1])) && s[i - 1] != '.' && s[i - 1] != ')' && s[i - 1] != ']')));
    if (std::isdigit(c) || dot_number) {
      const size_t j = i + valid_literal_prefix(s, i);
      L.numbers.push_back(s.substr(i, j - i));
      i = j;
      continue;
    }
    ++i;
  }
  return L;
}

inline void collect_texts(const chaiscript::AST_Node &n, std::multiset<std::string> &texts, long &nodes) {
  walk(n, [&](const chaiscript::AST_Node &c, int) { ++nodes; texts.insert(c.text); });
}

inline const std::set<std::string> &keywords() {
  static const std::set<std::string> k{"def", "fun", "var", "auto", "global", "if", "else", "for", "while", "return", "break",
                                       "continue", "try", "catch", "finally", "switch", "case", "default", "class", "attr",
                                       "true", "false", "Infinity", "NaN", "__LINE__", "__FILE__", "__FUNC__", "__CLASS__",
                                       "_", "this"};
  return k;
}

inline int max_bracket_depth(const std::string &s) {
  int d = 0, m = 0;
  for (char c : s) {
    if (c == '(' || c == '[' || c == '{') { ++d; if (d > m) m = d; }
    else if (c == ')' || c == ']' || c == '}') { if (d > 0) --d; }
  }
  return m;
}

struct ParseOracle {
  std::unique_ptr<chaiscript::parser::ChaiScript_Parser_Base> opt = verif_parser(true);
  std::unique_ptr<chaiscript::parser::ChaiScript_Parser_Base> noopt = verif_parser(false);
  ParseStats stats;
  bool last_nontrivial = false;
  Outcome last_outcome = Outcome::Rejected;
  std::string last_error;

  // returns "" or violation text
  std::string check(const std::string &input) {
    ++stats.execs;
    last_nontrivial = false;
    ParseResult a = parse_with(*opt, input);
    if (!a.violation.empty()) return "optimizing parser: " + a.violation;
    ParseResult b = parse_with(*noopt, input);
    if (!b.violation.empty()) return "plain parser: " + b.violation;

    last_outcome = b.outcome;
    last_error = b.error;
    const int depth = max_bracket_depth(input);
    ++stats.depth_buckets[depth == 0 ? 0 : depth < 4 ? 1 : depth < 10 ? 2 : depth < 30 ? 3 : 4];
    if (input.find('"') != std::string::npos) ++stats.with_string;
    if (input.find('\\') != std::string::npos) ++stats.with_escape;

    long nodes = 0;
    std::multiset<std::string> texts;
    switch (b.outcome) {
      case Outcome::File: ++stats.accepted_file; collect_texts(*b.tree, texts, nodes); break;
      case Outcome::Noop: ++stats.accepted_noop; break;
      case Outcome::Rejected: ++stats.rejected; ++stats.reject_msgs[b.error.substr(0, 40)]; break;
    }
    last_nontrivial = nodes > 1 || (b.outcome == Outcome::Rejected && !all_trivia(input));
    if (last_nontrivial) ++stats.nontrivial;

    // (2) a Noop root means "nothing but trivia"
    if (b.outcome == Outcome::Noop && !all_trivia(input)) {
      return "input with non-trivia text accepted as an empty program (Noop root): text silently dropped";
    }
    if (a.outcome == Outcome::Noop && !all_trivia(input)) {
      return "optimizing parser: input with non-trivia text accepted as an empty program (Noop root)";
    }

    // (2b) illegal bytes outside any literal/comment must be rejected
    bool has_illegal = false, has_guard = false;
    for (unsigned char c : input) {
      if (c > 0x7e || (c < 0x20 && c != '\t' && c != '\r' && c != '\n')) has_illegal = true;
      if (c == '"' || c == '\'' || c == '\\' || c == '/' || c == '#' || c == '`') has_guard = true;
    }
    if (has_illegal && !has_guard) {
      ++stats.illegal_checked;
      if (b.outcome != Outcome::Rejected || a.outcome != Outcome::Rejected) {
        return "input containing an illegal byte outside any literal or comment was accepted";
      }
    }

    // (3)+(5) token accounting on quote-free accepted inputs, against the un-optimized tree
    if (b.outcome == Outcome::File) {
      Lexed L = lex_quote_free(input);
      if (L.ok) {
        ++stats.lexer_checked;
        std::multiset<std::string> want;
        for (const auto &id : L.idents) { if (!keywords().count(id)) want.insert(id); }
        for (const auto &nm : L.numbers) want.insert(nm);
        for (auto it = want.begin(); it != want.end(); it = want.upper_bound(*it)) {
          if (texts.count(*it) < want.count(*it)) {
            return "token '" + *it + "' occurs " + std::to_string(want.count(*it)) + "x in the accepted input but only "
                   + std::to_string(texts.count(*it)) + "x in the syntax tree: text silently dropped";
          }
        }
      }
    }

    // (4) junk-suffix relation: an accepted program followed by a stray ')' must be rejected
    if (b.outcome != Outcome::Rejected) {
      ++stats.junk_checked;
      const std::string junk = input + "\n*/\n)";
      ParseResult j = parse_with(*noopt, junk);
      if (!j.violation.empty()) return "plain parser (junk suffix): " + j.violation;
      if (j.outcome != Outcome::Rejected) {
        return "accepted program followed by a stray ')' is still accepted: trailing text silently dropped";
      }
    }
    return "";
  }
};

} // namespace verif
#endif
